// Package vfilepath: path/filepath stand-in. The pure functions are the real ones; the functions that read the file
// system (Glob, Walk, WalkDir, EvalSymlinks) work on the in-memory file system of package vos.
package vfilepath

import (
	"io/fs"
	"path/filepath"
	"sort"
	"strings"

	"verif/shim/vos"
)

const (
	Separator     = filepath.Separator
	ListSeparator = filepath.ListSeparator
)

var (
	ErrBadPattern = filepath.ErrBadPattern
	SkipDir       = filepath.SkipDir
	SkipAll       = filepath.SkipAll
)

type WalkFunc = filepath.WalkFunc

func Join(e ...string) string               { return filepath.Join(e...) }
func Base(p string) string                  { return filepath.Base(p) }
func Dir(p string) string                   { return filepath.Dir(p) }
func Ext(p string) string                   { return filepath.Ext(p) }
func Clean(p string) string                 { return filepath.Clean(p) }
func IsAbs(p string) bool                   { return filepath.IsAbs(p) }
func IsLocal(p string) bool                 { return filepath.IsLocal(p) }
func Split(p string) (string, string)       { return filepath.Split(p) }
func SplitList(p string) []string           { return filepath.SplitList(p) }
func ToSlash(p string) string               { return filepath.ToSlash(p) }
func FromSlash(p string) string             { return filepath.FromSlash(p) }
func VolumeName(p string) string            { return filepath.VolumeName(p) }
func Match(pat, n string) (bool, error)     { return filepath.Match(pat, n) }
func Rel(base, t string) (string, error)    { return filepath.Rel(base, t) }
func EvalSymlinks(p string) (string, error) { return filepath.Clean(p), nil }

func Abs(p string) (string, error) {
	if filepath.IsAbs(p) {
		return filepath.Clean(p), nil
	}
	return filepath.Join("/", p), nil
}

func hasMeta(p string) bool { return strings.ContainsAny(p, `*?[\`) }

// Glob over the in-memory file system.
func Glob(pattern string) ([]string, error) {
	if _, err := filepath.Match(pattern, ""); err != nil {
		return nil, err
	}
	if !hasMeta(pattern) {
		if _, err := vos.Lstat(pattern); err != nil {
			return nil, nil
		}
		return []string{pattern}, nil
	}
	dir, file := filepath.Split(pattern)
	dir = cleanGlobDir(dir)
	dirs := []string{dir}
	if hasMeta(dir) {
		var err error
		if dirs, err = Glob(dir); err != nil {
			return nil, err
		}
	}
	var out []string
	for _, d := range dirs {
		es, err := vos.ReadDir(d)
		if err != nil {
			continue
		}
		for _, e := range es {
			if ok, _ := filepath.Match(file, e.Name()); ok {
				out = append(out, filepath.Join(d, e.Name()))
			}
		}
	}
	sort.Strings(out)
	return out, nil
}

func cleanGlobDir(d string) string {
	switch d {
	case "":
		return "."
	case "/":
		return d
	}
	return d[:len(d)-1]
}

// WalkDir over the in-memory file system, in lexical order.
func WalkDir(root string, fn fs.WalkDirFunc) error {
	info, err := vos.Lstat(root)
	if err != nil {
		err = fn(root, nil, err)
	} else {
		err = walkDir(root, fs.FileInfoToDirEntry(info), fn)
	}
	if err == filepath.SkipDir || err == filepath.SkipAll {
		return nil
	}
	return err
}

func walkDir(p string, d fs.DirEntry, fn fs.WalkDirFunc) error {
	if err := fn(p, d, nil); err != nil || !d.IsDir() {
		if err == filepath.SkipDir && d.IsDir() {
			err = nil
		}
		return err
	}
	es, err := vos.ReadDir(p)
	if err != nil {
		if err = fn(p, d, err); err != nil {
			if err == filepath.SkipDir {
				err = nil
			}
			return err
		}
	}
	for _, e := range es {
		if err := walkDir(filepath.Join(p, e.Name()), e, fn); err != nil {
			if err == filepath.SkipDir {
				break
			}
			return err
		}
	}
	return nil
}

// Walk over the in-memory file system, in lexical order.
func Walk(root string, fn filepath.WalkFunc) error {
	return WalkDir(root, func(p string, d fs.DirEntry, err error) error {
		if err != nil {
			return fn(p, nil, err)
		}
		info, ierr := d.Info()
		return fn(p, info, ierr)
	})
}
