// Package vioutil: io/ioutil stand-in over the in-memory file system of package vos.
package vioutil

import (
	"io"
	"io/fs"

	"verif/shim/vos"
)

var Discard = io.Discard

func ReadAll(r io.Reader) ([]byte, error)             { return io.ReadAll(r) }
func NopCloser(r io.Reader) io.ReadCloser             { return io.NopCloser(r) }
func ReadFile(name string) ([]byte, error)            { return vos.ReadFile(name) }
func TempFile(dir, pattern string) (*vos.File, error) { return vos.CreateTemp(dir, pattern) }
func TempDir(dir, pattern string) (string, error)     { return vos.MkdirTemp(dir, pattern) }

func WriteFile(name string, data []byte, perm fs.FileMode) error {
	return vos.WriteFile(name, data, perm)
}

func ReadDir(dir string) ([]fs.FileInfo, error) {
	es, err := vos.ReadDir(dir)
	if err != nil {
		return nil, err
	}
	var r []fs.FileInfo
	for _, e := range es {
		i, err := e.Info()
		if err != nil {
			return nil, err
		}
		r = append(r, i)
	}
	return r, nil
}
