// Package vmap: map iteration order as an explorer choice (default: sorted keys).
package vmap

import (
	"cmp"
	"slices"

	"verif/vsched"
)

var fact = []int{1, 1, 2, 6, 24}

// Keys returns the keys of m in an order chosen by the explorer: option 0 is ascending order,
// the other options are the remaining permutations (maps of up to 4 keys; larger maps are
// offered in ascending and descending order only).
//
//go:norace
func Keys[K cmp.Ordered, V any](m map[K]V) []K {
	ks := make([]K, 0, len(m))
	for k := range m {
		ks = append(ks, k)
	}
	slices.Sort(ks)
	n := len(ks)
	if n <= 1 {
		return ks
	}
	if n > 4 {
		if vsched.ChooseEnv("map.order", 2) == 1 {
			slices.Reverse(ks)
		}
		return ks
	}
	p := vsched.ChooseEnv("map.order", fact[n])
	// decode permutation index p (Lehmer code), 0 = identity
	out := make([]K, 0, n)
	rest := ks
	for i := n; i >= 1; i-- {
		f := fact[i-1]
		j := p / f
		p %= f
		out = append(out, rest[j])
		rest = append(append([]K{}, rest[:j]...), rest[j+1:]...)
	}
	return out
}
