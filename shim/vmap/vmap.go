// Package vmap: map iteration order as an explorer choice (default: sorted keys).
package vmap

import (
	"cmp"
	"fmt"
	"slices"

	"verif/vsched"
)

var fact = []int{1, 1, 2, 6, 24}

// Keys returns the keys of m in an order chosen by the explorer: option 0 is ascending order,
// the other options are the remaining permutations (maps of up to 4 keys; larger maps are
// offered in ascending and descending order only).
//
//go:norace
func Keys[K comparable, V any](m map[K]V) []K {
	ks := make([]K, 0, len(m))
	for k := range m {
		ks = append(ks, k)
	}
	sortKeys(ks)
	n := len(ks)
	if n <= 1 {
		return ks
	}
	if n > 4 {
		if vsched.ChooseEnv("map.order", 2) == 1 {
			slices.Reverse(ks)
		}
		return ks
	}
	p := vsched.ChooseEnv("map.order", fact[n])
	// decode permutation index p (Lehmer code), 0 = identity
	out := make([]K, 0, n)
	rest := ks
	for i := n; i >= 1; i-- {
		f := fact[i-1]
		j := p / f
		p %= f
		out = append(out, rest[j])
		rest = append(append([]K{}, rest[:j]...), rest[j+1:]...)
	}
	return out
}

// sortKeys: a canonical order for any comparable key type - the natural order for the ordered basic kinds, the
// order of the printed form otherwise (struct, array, pointer-free interface keys); only determinism matters.
//
//go:norace
func sortKeys[K comparable](ks []K) {
	switch x := any(ks).(type) {
	case []string:
		slices.Sort(x)
	case []int:
		slices.Sort(x)
	case []int64:
		slices.Sort(x)
	case []uint64:
		slices.Sort(x)
	case []uint32:
		slices.Sort(x)
	case []int32:
		slices.Sort(x)
	case []uint:
		slices.Sort(x)
	case []float64:
		slices.Sort(x)
	default:
		slices.SortStableFunc(ks, func(a, b K) int { return cmp.Compare(fmt.Sprintf("%#v", a), fmt.Sprintf("%#v", b)) })
	}
}
