// Package vchan: Go channel semantics on top of vsched (prototype).
package vchan

import (
	"unsafe"

	"verif/vrace"
	"verif/vsched"
)

//go:norace
func hb[T any](c *Chan[T]) {
	vrace.Acquire(unsafe.Pointer(c))
	vrace.ReleaseMerge(unsafe.Pointer(c))
}

type waiter[T any] struct {
	tid  int
	val  T
	ok   bool
	done bool
	sel  *selState
	idx  int
}

type selState struct {
	fired int
}

type Chan[T any] struct {
	id     uint64
	epoch  *vsched.Exec
	cap    int
	buf    []T
	closed bool
	recvq  []*waiter[T]
	sendq  []*waiter[T]
	nsend  uint64
	nrecv  uint64
}

// sub-objects of a channel for dependency tracking: FIFO element slots, head, tail, closed flag
//
//go:norace
func (c *Chan[T]) sub(kind uint64, k uint64) uint64 {
	return c.oid()*0x100000001b3 ^ (kind << 56) ^ (k + 1)
}

//go:norace
func (c *Chan[T]) evSend(tid int) {
	k := c.nsend
	c.nsend++
	reads := []uint64{c.sub(3, 0)}
	if c.cap > 0 && k >= uint64(c.cap) {
		reads = append(reads, c.sub(2, k-uint64(c.cap)))
	}
	vsched.EventDeps(tid, "chan.send", reads, []uint64{c.sub(0, 0), c.sub(1, k)})
}

//go:norace
func (c *Chan[T]) evRecv(tid int) {
	j := c.nrecv
	c.nrecv++
	vsched.EventDeps(tid, "chan.recv", []uint64{c.sub(1, j)}, []uint64{c.sub(4, 0), c.sub(2, j)})
}

//go:norace
func (c *Chan[T]) evRecvClosed(tid int) {
	vsched.EventDeps(tid, "chan.recvclosed", []uint64{c.sub(3, 0), c.sub(0, 0)}, []uint64{c.sub(4, 0)})
}

//go:norace
func Make[T any](n int) *Chan[T] {
	if n < 0 {
		panic("makechan: size out of range")
	}
	return &Chan[T]{cap: n}
}

//go:norace
func (c *Chan[T]) oid() uint64 { return vsched.ObjID(&c.id, &c.epoch) }

//go:norace
func Len[T any](c *Chan[T]) int {
	if c == nil {
		return 0
	}
	vsched.Point(&vsched.Op{Kind: "chan.len"})
	vsched.EventDeps(-1, "chan.len", []uint64{c.sub(0, 0), c.sub(4, 0)}, nil)
	return len(c.buf)
}

//go:norace
func Cap[T any](c *Chan[T]) int {
	if c == nil {
		return 0
	}
	return c.cap
}

//go:norace
func tid() int { return vsched.CurThreadID() }

//go:norace
func remove[T any](q []*waiter[T], w *waiter[T]) []*waiter[T] {
	for i, x := range q {
		if x == w {
			return vrace.RemoveAt(q, i)
		}
	}
	return q
}

// otherWaiters returns waiters not belonging to thread t and not already completed
//
//go:norace
func otherWaiters[T any](q []*waiter[T], t int) []*waiter[T] {
	var r []*waiter[T]
	for _, w := range q {
		if w.tid != t && !w.done && (w.sel == nil || w.sel.fired < 0) {
			r = append(r, w)
		}
	}
	return r
}

//go:norace
func (c *Chan[T]) canSend(t int) bool {
	if c.closed {
		return true // will panic
	}
	if c.cap > 0 {
		return len(c.buf) < c.cap
	}
	return len(otherWaiters(c.recvq, t)) > 0
}

//go:norace
func (c *Chan[T]) canRecv(t int) bool {
	if len(c.buf) > 0 || c.closed {
		return true
	}
	if c.cap == 0 {
		return len(otherWaiters(c.sendq, t)) > 0
	}
	return false
}

//go:norace
func never() bool { return false }

//go:norace
func (c *Chan[T]) doSend(t int, v T) {
	if c.closed {
		panic("send on closed channel")
	}
	if c.cap > 0 {
		c.buf = append(c.buf, v)
		c.evSend(-1)
		return
	}
	ws := otherWaiters(c.recvq, t)
	w := ws[vsched.ChooseEnv("chan.partner", len(ws))]
	w.val, w.ok, w.done = v, true, true
	if w.sel != nil {
		w.sel.fired = w.idx
	}
	c.evSend(-1)
	c.evRecv(w.tid)
}

//go:norace
func (c *Chan[T]) doRecv(t int) (T, bool) {
	if len(c.buf) > 0 {
		v := c.buf[0]
		c.buf = c.buf[1:]
		c.evRecv(-1)
		return v, true
	}
	if c.cap == 0 {
		ws := otherWaiters(c.sendq, t)
		if len(ws) > 0 {
			w := ws[vsched.ChooseEnv("chan.partner", len(ws))]
			w.done = true
			if w.sel != nil {
				w.sel.fired = w.idx
			}
			c.evSend(w.tid)
			c.evRecv(-1)
			return w.val, true
		}
	}
	if c.closed {
		var z T
		c.evRecvClosed(-1)
		return z, false
	}
	panic("vchan: recv granted but nothing to receive")
}

//go:norace
func Send[T any](c *Chan[T], v T) {
	if c == nil {
		vsched.Point(&vsched.Op{Kind: "chan.send(nil)", En: neverEn{}})
		return
	}
	t := tid()
	w := &waiter[T]{tid: t, val: v}
	c.sendq = append(c.sendq, w)
	vsched.Point(&vsched.Op{Kind: "chan.send", En: &sendEn[T]{c, w, t}})
	c.sendq = remove(c.sendq, w)
	hb(c)
	if w.done {
		return
	}
	c.doSend(t, v)
}

//go:norace
func Recv[T any](c *Chan[T]) T {
	v, _ := Recv2(c)
	return v
}

//go:norace
func Recv2[T any](c *Chan[T]) (T, bool) {
	if c == nil {
		vsched.Point(&vsched.Op{Kind: "chan.recv(nil)", En: neverEn{}})
		var z T
		return z, false
	}
	t := tid()
	w := &waiter[T]{tid: t}
	c.recvq = append(c.recvq, w)
	vsched.Point(&vsched.Op{Kind: "chan.recv", En: &recvEn[T]{c, w, t}})
	c.recvq = remove(c.recvq, w)
	hb(c)
	if w.done {
		return w.val, w.ok
	}
	return c.doRecv(t)
}

//go:norace
func Close[T any](c *Chan[T]) {
	if c == nil {
		panic("close of nil channel")
	}
	vsched.Point(&vsched.Op{Kind: "chan.close"})
	if c.closed {
		panic("close of closed channel")
	}
	c.closed = true
	hb(c)
	vsched.EventDeps(-1, "chan.close", nil, []uint64{c.sub(3, 0), c.sub(0, 0)})
}

// ------------------------------------------------------------------ select

type Case interface {
	peek()
	obj() uint64
	register(t int, s *selState, idx int)
	unregister()
	ready(t int) bool
	fire(t int)
	collect()
}

type RecvCaseT[T any] struct {
	c  *Chan[T]
	w  *waiter[T]
	V  T
	Ok bool
}

type SendCaseT[T any] struct {
	c *Chan[T]
	w *waiter[T]
	v T
}

//go:norace
func RecvCase[T any](c *Chan[T]) *RecvCaseT[T] { return &RecvCaseT[T]{c: c} }

//go:norace
func SendCase[T any](c *Chan[T], v T) *SendCaseT[T] { return &SendCaseT[T]{c: c, v: v} }

//go:norace
func (r *RecvCaseT[T]) peek() {
	if r.c != nil {
		vsched.EventDeps(-1, "select.peek", []uint64{r.c.sub(0, 0), r.c.sub(3, 0)}, nil)
	}
}

//go:norace
func (s *SendCaseT[T]) peek() {
	if s.c != nil {
		vsched.EventDeps(-1, "select.peek", []uint64{s.c.sub(4, 0), s.c.sub(3, 0)}, nil)
	}
}

//go:norace
func (r *RecvCaseT[T]) obj() uint64 {
	if r.c == nil {
		return 0
	}
	return r.c.oid()
}

//go:norace
func (s *SendCaseT[T]) obj() uint64 {
	if s.c == nil {
		return 0
	}
	return s.c.oid()
}

//go:norace
func (r *RecvCaseT[T]) register(t int, s *selState, idx int) {
	if r.c == nil {
		return
	}
	r.w = &waiter[T]{tid: t, sel: s, idx: idx}
	r.c.recvq = append(r.c.recvq, r.w)
}

//go:norace
func (r *RecvCaseT[T]) unregister() {
	if r.c != nil {
		r.c.recvq = remove(r.c.recvq, r.w)
	}
}

//go:norace
func (r *RecvCaseT[T]) ready(t int) bool { return r.c != nil && r.c.canRecv(t) }

//go:norace
func (r *RecvCaseT[T]) fire(t int) { r.V, r.Ok = r.c.doRecv(t) }

//go:norace
func (r *RecvCaseT[T]) collect() { r.V, r.Ok = r.w.val, r.w.ok }

//go:norace
func (s *SendCaseT[T]) register(t int, st *selState, idx int) {
	if s.c == nil {
		return
	}
	s.w = &waiter[T]{tid: t, val: s.v, sel: st, idx: idx}
	s.c.sendq = append(s.c.sendq, s.w)
}

//go:norace
func (s *SendCaseT[T]) unregister() {
	if s.c != nil {
		s.c.sendq = remove(s.c.sendq, s.w)
	}
}

//go:norace
func (s *SendCaseT[T]) ready(t int) bool { return s.c != nil && s.c.canSend(t) }

//go:norace
func (s *SendCaseT[T]) fire(t int) { s.c.doSend(t, s.v) }

//go:norace
func (s *SendCaseT[T]) collect() {}

// Select returns the index of the case that fired, or -1 for default.
//
//go:norace
func Select(hasDefault bool, cases ...Case) int {
	t := tid()
	st := &selState{fired: -1}
	for i, c := range cases {
		c.register(t, st, i)
	}
	vsched.Point(&vsched.Op{Kind: "chan.select", En: &selEn{st, hasDefault, cases, t}})
	for _, c := range cases {
		c.unregister()
	}
	if st.fired >= 0 {
		cases[st.fired].collect()
		return st.fired
	}
	if len(cases) == 0 || !hasDefault {
		// fallthrough to ready computation
	}
	var ready []int
	for i, c := range cases {
		if c.ready(t) {
			ready = append(ready, i)
		}
	}
	if len(ready) == 0 {
		if hasDefault {
			for _, c := range cases {
				c.peek()
			}
			return -1
		}
		panic("vchan: select granted but nothing ready")
	}
	i := ready[vsched.ChooseEnv("select.case", len(ready))]
	for k, c := range cases {
		if k != i {
			c.peek()
		}
	}
	cases[i].fire(t)
	return i
}

type neverEn struct{}

//go:norace
func (neverEn) OpEnabled() bool { return false }

type sendEn[T any] struct {
	c *Chan[T]
	w *waiter[T]
	t int
}

//go:norace
func (e *sendEn[T]) OpEnabled() bool { return e.w.done || e.c.canSend(e.t) }

type recvEn[T any] struct {
	c *Chan[T]
	w *waiter[T]
	t int
}

//go:norace
func (e *recvEn[T]) OpEnabled() bool { return e.w.done || e.c.canRecv(e.t) }

type selEn struct {
	st         *selState
	hasDefault bool
	cases      []Case
	t          int
}

//go:norace
func (e *selEn) OpEnabled() bool {
	if e.st.fired >= 0 || e.hasDefault {
		return true
	}
	for _, c := range e.cases {
		if c.ready(e.t) {
			return true
		}
	}
	return false
}
