// Package vatomic: sync/atomic on top of vsched (prototype).
package vatomic

import (
	"sync/atomic"
	"unsafe"

	"verif/vsched"
)

//go:norace
func pt(kind string, p unsafe.Pointer, w bool) {
	if vsched.InThread() {
		vsched.Point(&vsched.Op{Kind: kind, Obj: vsched.AddrID(uintptr(p)), Write: w})
	}
}

type Uint64 struct{ v atomic.Uint64 }

//go:norace
func (x *Uint64) Load() uint64 { pt("atomic.load", unsafe.Pointer(x), false); return x.v.Load() }

//go:norace
func (x *Uint64) Store(v uint64) { pt("atomic.store", unsafe.Pointer(x), true); x.v.Store(v) }

//go:norace
func (x *Uint64) Add(d uint64) uint64 {
	pt("atomic.add", unsafe.Pointer(x), true)
	return x.v.Add(d)
}

//go:norace
func (x *Uint64) CompareAndSwap(o, n uint64) bool {
	pt("atomic.cas", unsafe.Pointer(x), true)
	return x.v.CompareAndSwap(o, n)
}

//go:norace
func LoadUint32(p *uint32) uint32 {
	pt("atomic.load", unsafe.Pointer(p), false)
	return atomic.LoadUint32(p)
}

//go:norace
func StoreUint32(p *uint32, v uint32) {
	pt("atomic.store", unsafe.Pointer(p), true)
	atomic.StoreUint32(p, v)
}
