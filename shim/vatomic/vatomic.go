// Package vatomic: sync/atomic on top of vsched. Every operation is a scheduling point followed by
// the real atomic instruction (so the race detector sees real atomics).
package vatomic

import (
	"sync/atomic"
	"unsafe"

	"verif/vsched"
)

//go:norace
func pt(kind string, p unsafe.Pointer, w bool) {
	if vsched.InThread() {
		vsched.Point(&vsched.Op{Kind: kind, Obj: vsched.AddrID(uintptr(p)), Write: w})
	}
}

// ---- typed values

type Bool struct{ v atomic.Bool }

//go:norace
func (x *Bool) Load() bool { pt("atomic.load", unsafe.Pointer(x), false); return x.v.Load() }

//go:norace
func (x *Bool) Store(v bool) { pt("atomic.store", unsafe.Pointer(x), true); x.v.Store(v) }

//go:norace
func (x *Bool) Swap(v bool) bool { pt("atomic.swap", unsafe.Pointer(x), true); return x.v.Swap(v) }

//go:norace
func (x *Bool) CompareAndSwap(o, n bool) bool {
	pt("atomic.cas", unsafe.Pointer(x), true)
	return x.v.CompareAndSwap(o, n)
}

type Int32 struct{ v atomic.Int32 }

//go:norace
func (x *Int32) Load() int32 { pt("atomic.load", unsafe.Pointer(x), false); return x.v.Load() }

//go:norace
func (x *Int32) Store(v int32) { pt("atomic.store", unsafe.Pointer(x), true); x.v.Store(v) }

//go:norace
func (x *Int32) Swap(v int32) int32 { pt("atomic.swap", unsafe.Pointer(x), true); return x.v.Swap(v) }

//go:norace
func (x *Int32) Add(d int32) int32 { pt("atomic.add", unsafe.Pointer(x), true); return x.v.Add(d) }

//go:norace
func (x *Int32) CompareAndSwap(o, n int32) bool {
	pt("atomic.cas", unsafe.Pointer(x), true)
	return x.v.CompareAndSwap(o, n)
}

type Int64 struct{ v atomic.Int64 }

//go:norace
func (x *Int64) Load() int64 { pt("atomic.load", unsafe.Pointer(x), false); return x.v.Load() }

//go:norace
func (x *Int64) Store(v int64) { pt("atomic.store", unsafe.Pointer(x), true); x.v.Store(v) }

//go:norace
func (x *Int64) Swap(v int64) int64 { pt("atomic.swap", unsafe.Pointer(x), true); return x.v.Swap(v) }

//go:norace
func (x *Int64) Add(d int64) int64 { pt("atomic.add", unsafe.Pointer(x), true); return x.v.Add(d) }

//go:norace
func (x *Int64) CompareAndSwap(o, n int64) bool {
	pt("atomic.cas", unsafe.Pointer(x), true)
	return x.v.CompareAndSwap(o, n)
}

type Uint32 struct{ v atomic.Uint32 }

//go:norace
func (x *Uint32) Load() uint32 { pt("atomic.load", unsafe.Pointer(x), false); return x.v.Load() }

//go:norace
func (x *Uint32) Store(v uint32) { pt("atomic.store", unsafe.Pointer(x), true); x.v.Store(v) }

//go:norace
func (x *Uint32) Swap(v uint32) uint32 {
	pt("atomic.swap", unsafe.Pointer(x), true)
	return x.v.Swap(v)
}

//go:norace
func (x *Uint32) Add(d uint32) uint32 { pt("atomic.add", unsafe.Pointer(x), true); return x.v.Add(d) }

//go:norace
func (x *Uint32) CompareAndSwap(o, n uint32) bool {
	pt("atomic.cas", unsafe.Pointer(x), true)
	return x.v.CompareAndSwap(o, n)
}

type Uint64 struct{ v atomic.Uint64 }

//go:norace
func (x *Uint64) Load() uint64 { pt("atomic.load", unsafe.Pointer(x), false); return x.v.Load() }

//go:norace
func (x *Uint64) Store(v uint64) { pt("atomic.store", unsafe.Pointer(x), true); x.v.Store(v) }

//go:norace
func (x *Uint64) Swap(v uint64) uint64 {
	pt("atomic.swap", unsafe.Pointer(x), true)
	return x.v.Swap(v)
}

//go:norace
func (x *Uint64) Add(d uint64) uint64 { pt("atomic.add", unsafe.Pointer(x), true); return x.v.Add(d) }

//go:norace
func (x *Uint64) CompareAndSwap(o, n uint64) bool {
	pt("atomic.cas", unsafe.Pointer(x), true)
	return x.v.CompareAndSwap(o, n)
}

type Uintptr struct{ v atomic.Uintptr }

//go:norace
func (x *Uintptr) Load() uintptr { pt("atomic.load", unsafe.Pointer(x), false); return x.v.Load() }

//go:norace
func (x *Uintptr) Store(v uintptr) { pt("atomic.store", unsafe.Pointer(x), true); x.v.Store(v) }

//go:norace
func (x *Uintptr) Add(d uintptr) uintptr {
	pt("atomic.add", unsafe.Pointer(x), true)
	return x.v.Add(d)
}

//go:norace
func (x *Uintptr) CompareAndSwap(o, n uintptr) bool {
	pt("atomic.cas", unsafe.Pointer(x), true)
	return x.v.CompareAndSwap(o, n)
}

type Pointer[T any] struct{ v atomic.Pointer[T] }

//go:norace
func (x *Pointer[T]) Load() *T { pt("atomic.load", unsafe.Pointer(x), false); return x.v.Load() }

//go:norace
func (x *Pointer[T]) Store(v *T) { pt("atomic.store", unsafe.Pointer(x), true); x.v.Store(v) }

//go:norace
func (x *Pointer[T]) Swap(v *T) *T { pt("atomic.swap", unsafe.Pointer(x), true); return x.v.Swap(v) }

//go:norace
func (x *Pointer[T]) CompareAndSwap(o, n *T) bool {
	pt("atomic.cas", unsafe.Pointer(x), true)
	return x.v.CompareAndSwap(o, n)
}

type Value struct{ v atomic.Value }

//go:norace
func (x *Value) Load() any { pt("atomic.load", unsafe.Pointer(x), false); return x.v.Load() }

//go:norace
func (x *Value) Store(v any) { pt("atomic.store", unsafe.Pointer(x), true); x.v.Store(v) }

//go:norace
func (x *Value) Swap(v any) any { pt("atomic.swap", unsafe.Pointer(x), true); return x.v.Swap(v) }

//go:norace
func (x *Value) CompareAndSwap(o, n any) bool {
	pt("atomic.cas", unsafe.Pointer(x), true)
	return x.v.CompareAndSwap(o, n)
}

// ---- functions

//go:norace
func LoadInt32(p *int32) int32 {
	pt("atomic.load", unsafe.Pointer(p), false)
	return atomic.LoadInt32(p)
}

//go:norace
func LoadInt64(p *int64) int64 {
	pt("atomic.load", unsafe.Pointer(p), false)
	return atomic.LoadInt64(p)
}

//go:norace
func LoadUint32(p *uint32) uint32 {
	pt("atomic.load", unsafe.Pointer(p), false)
	return atomic.LoadUint32(p)
}

//go:norace
func LoadUint64(p *uint64) uint64 {
	pt("atomic.load", unsafe.Pointer(p), false)
	return atomic.LoadUint64(p)
}

//go:norace
func LoadUintptr(p *uintptr) uintptr {
	pt("atomic.load", unsafe.Pointer(p), false)
	return atomic.LoadUintptr(p)
}

//go:norace
func LoadPointer(p *unsafe.Pointer) unsafe.Pointer {
	pt("atomic.load", unsafe.Pointer(p), false)
	return atomic.LoadPointer(p)
}

//go:norace
func StoreInt32(p *int32, v int32) {
	pt("atomic.store", unsafe.Pointer(p), true)
	atomic.StoreInt32(p, v)
}

//go:norace
func StoreInt64(p *int64, v int64) {
	pt("atomic.store", unsafe.Pointer(p), true)
	atomic.StoreInt64(p, v)
}

//go:norace
func StoreUint32(p *uint32, v uint32) {
	pt("atomic.store", unsafe.Pointer(p), true)
	atomic.StoreUint32(p, v)
}

//go:norace
func StoreUint64(p *uint64, v uint64) {
	pt("atomic.store", unsafe.Pointer(p), true)
	atomic.StoreUint64(p, v)
}

//go:norace
func StoreUintptr(p *uintptr, v uintptr) {
	pt("atomic.store", unsafe.Pointer(p), true)
	atomic.StoreUintptr(p, v)
}

//go:norace
func StorePointer(p *unsafe.Pointer, v unsafe.Pointer) {
	pt("atomic.store", unsafe.Pointer(p), true)
	atomic.StorePointer(p, v)
}

//go:norace
func AddInt32(p *int32, d int32) int32 {
	pt("atomic.add", unsafe.Pointer(p), true)
	return atomic.AddInt32(p, d)
}

//go:norace
func AddInt64(p *int64, d int64) int64 {
	pt("atomic.add", unsafe.Pointer(p), true)
	return atomic.AddInt64(p, d)
}

//go:norace
func AddUint32(p *uint32, d uint32) uint32 {
	pt("atomic.add", unsafe.Pointer(p), true)
	return atomic.AddUint32(p, d)
}

//go:norace
func AddUint64(p *uint64, d uint64) uint64 {
	pt("atomic.add", unsafe.Pointer(p), true)
	return atomic.AddUint64(p, d)
}

//go:norace
func AddUintptr(p *uintptr, d uintptr) uintptr {
	pt("atomic.add", unsafe.Pointer(p), true)
	return atomic.AddUintptr(p, d)
}

//go:norace
func SwapInt32(p *int32, v int32) int32 {
	pt("atomic.swap", unsafe.Pointer(p), true)
	return atomic.SwapInt32(p, v)
}

//go:norace
func SwapInt64(p *int64, v int64) int64 {
	pt("atomic.swap", unsafe.Pointer(p), true)
	return atomic.SwapInt64(p, v)
}

//go:norace
func SwapUint32(p *uint32, v uint32) uint32 {
	pt("atomic.swap", unsafe.Pointer(p), true)
	return atomic.SwapUint32(p, v)
}

//go:norace
func SwapUint64(p *uint64, v uint64) uint64 {
	pt("atomic.swap", unsafe.Pointer(p), true)
	return atomic.SwapUint64(p, v)
}

//go:norace
func SwapPointer(p *unsafe.Pointer, v unsafe.Pointer) unsafe.Pointer {
	pt("atomic.swap", unsafe.Pointer(p), true)
	return atomic.SwapPointer(p, v)
}

//go:norace
func CompareAndSwapInt32(p *int32, o, n int32) bool {
	pt("atomic.cas", unsafe.Pointer(p), true)
	return atomic.CompareAndSwapInt32(p, o, n)
}

//go:norace
func CompareAndSwapInt64(p *int64, o, n int64) bool {
	pt("atomic.cas", unsafe.Pointer(p), true)
	return atomic.CompareAndSwapInt64(p, o, n)
}

//go:norace
func CompareAndSwapUint32(p *uint32, o, n uint32) bool {
	pt("atomic.cas", unsafe.Pointer(p), true)
	return atomic.CompareAndSwapUint32(p, o, n)
}

//go:norace
func CompareAndSwapUint64(p *uint64, o, n uint64) bool {
	pt("atomic.cas", unsafe.Pointer(p), true)
	return atomic.CompareAndSwapUint64(p, o, n)
}

//go:norace
func CompareAndSwapUintptr(p *uintptr, o, n uintptr) bool {
	pt("atomic.cas", unsafe.Pointer(p), true)
	return atomic.CompareAndSwapUintptr(p, o, n)
}

//go:norace
func CompareAndSwapPointer(p *unsafe.Pointer, o, n unsafe.Pointer) bool {
	pt("atomic.cas", unsafe.Pointer(p), true)
	return atomic.CompareAndSwapPointer(p, o, n)
}
