// Package vrand: math/rand stand-in. Every Float64 is an environment choice of the explorer
// ("rand.float": 0 = a value close to 1, 1 = 0.0), or is answered by Script in direct mode.
package vrand

import "verif/vsched"

type Source interface{ Int63() int64 }
type src struct{}

//go:norace
func (src) Int63() int64 { return 0 }

//go:norace
func NewSource(seed int64) Source { return src{} }

type Rand struct{}

//go:norace
func New(s Source) *Rand { return &Rand{} }

// Script, when set, answers Float64 calls (direct-mode enumeration of tower heights).
var Script func() float64

// Float64: 0.999.. means "do not grow the tower" for the skiplist.
//
//go:norace
func (r *Rand) Float64() float64 {
	if Script != nil {
		return Script()
	}
	if vsched.ChooseEnv("rand.float", 2) == 1 {
		return 0.0
	}
	return 0.9999999999999999
}

//go:norace
func (r *Rand) Intn(n int) int {
	if n <= 1 {
		return 0
	}
	return vsched.ChooseEnv("rand.intn", n)
}

//go:norace
func Float64() float64 { return (&Rand{}).Float64() }

//go:norace
func Intn(n int) int { return (&Rand{}).Intn(n) }
