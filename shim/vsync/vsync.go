// Package vsync: sync primitives on top of vsched (prototype).
package vsync

import (
	"unsafe"

	"verif/vrace"
	"verif/vsched"
)

type Locker interface {
	Lock()
	Unlock()
}

type Mutex struct {
	id     uint64
	epoch  *vsched.Exec
	locked bool
}

//go:norace
func (m *Mutex) oid() uint64 { return vsched.ObjID(&m.id, &m.epoch) }

//go:norace
func (m *Mutex) Lock() {
	vsched.Point(&vsched.Op{Kind: "mutex.lock", Obj: m.oid(), Write: true, En: (*mutexFree)(m)})
	m.locked = true
	vrace.Acquire(unsafe.Pointer(m))
}

//go:norace
func (m *Mutex) TryLock() bool {
	vsched.Point(&vsched.Op{Kind: "mutex.trylock", Obj: m.oid(), Write: true})
	if m.locked {
		return false
	}
	m.locked = true
	return true
}

//go:norace
func (m *Mutex) Unlock() {
	if !m.locked {
		panic("sync: unlock of unlocked mutex")
	}
	vrace.Release(unsafe.Pointer(m))
	m.locked = false
	vsched.Event("mutex.unlock", m.oid(), true)
}

type RWMutex struct {
	id      uint64
	epoch   *vsched.Exec
	readers int
	writer  bool
	waiting int  // announced writers
	rsem    byte // race-detector sync variables, as in sync.RWMutex
	wsem    byte
}

//go:norace
func (m *RWMutex) oid() uint64 { return vsched.ObjID(&m.id, &m.epoch) }

//go:norace
func (m *RWMutex) Lock() {
	// phase 1: announce (blocks new readers, as sync.RWMutex does)
	vsched.Point(&vsched.Op{Kind: "rwmutex.lock.announce", Obj: m.oid(), Write: true})
	m.waiting++
	// phase 2: acquire
	vsched.Point(&vsched.Op{Kind: "rwmutex.lock", Obj: m.oid(), Write: true, En: (*rwWriteFree)(m)})
	m.waiting--
	m.writer = true
	vrace.Acquire(unsafe.Pointer(&m.rsem))
	vrace.Acquire(unsafe.Pointer(&m.wsem))
}

//go:norace
func (m *RWMutex) Unlock() {
	if !m.writer {
		panic("sync: Unlock of unlocked RWMutex")
	}
	vrace.Release(unsafe.Pointer(&m.rsem))
	m.writer = false
	vsched.Event("rwmutex.unlock", m.oid(), true)
}

//go:norace
func (m *RWMutex) RLock() {
	vsched.Point(&vsched.Op{Kind: "rwmutex.rlock", Obj: m.oid(), En: (*rwReadFree)(m)})
	m.readers++
	vrace.Acquire(unsafe.Pointer(&m.rsem))
}

//go:norace
func (m *RWMutex) RUnlock() {
	if m.readers <= 0 {
		panic("sync: RUnlock of unlocked RWMutex")
	}
	vrace.ReleaseMerge(unsafe.Pointer(&m.wsem))
	m.readers--
	vsched.Event("rwmutex.runlock", m.oid(), true)
}

type WaitGroup struct {
	id    uint64
	epoch *vsched.Exec
	n     int
}

//go:norace
func (w *WaitGroup) oid() uint64 { return vsched.ObjID(&w.id, &w.epoch) }

//go:norace
func (w *WaitGroup) Add(d int) {
	vrace.ReleaseMerge(unsafe.Pointer(w))
	vsched.Event("wg.add", w.oid(), true)
	w.n += d
	if w.n < 0 {
		panic("sync: negative WaitGroup counter")
	}
}

//go:norace
func (w *WaitGroup) Done() { w.Add(-1) }

//go:norace
func (w *WaitGroup) Wait() {
	vsched.Point(&vsched.Op{Kind: "wg.wait", Obj: w.oid(), En: (*wgZero)(w)})
	vrace.Acquire(unsafe.Pointer(w))
}

type Pool struct {
	New   func() any
	free  []any
	epoch *vsched.Exec
}

// a pool hanging off a package-level variable survives executions: forget its content
// whenever a new execution is seen, otherwise replays meet different choices
//
//go:norace
func (p *Pool) sync() {
	if e := vsched.Cur(); e != p.epoch {
		p.epoch = e
		p.free = nil
	}
}

//go:norace
func (p *Pool) Get() any {
	p.sync()
	n := len(p.free)
	if n == 0 {
		if p.New == nil {
			return nil
		}
		return p.New()
	}
	// options: 0 = most recently put, 1..n-1 = older ones, n = fresh
	k := vsched.ChooseEnv("pool.get", n+1)
	if k == n {
		if p.New != nil {
			return p.New()
		}
		k = 0
	}
	i := n - 1 - k
	x := p.free[i]
	p.free = vrace.RemoveAt(p.free, i)
	vrace.Acquire(unsafe.Pointer(p))
	return x
}

//go:norace
func (p *Pool) Put(x any) {
	p.sync()
	vrace.ReleaseMerge(unsafe.Pointer(p))
	p.free = append(p.free, x)
}

type mutexFree Mutex

//go:norace
func (m *mutexFree) OpEnabled() bool { return !m.locked }

type rwWriteFree RWMutex

//go:norace
func (m *rwWriteFree) OpEnabled() bool { return !m.writer && m.readers == 0 }

type rwReadFree RWMutex

//go:norace
func (m *rwReadFree) OpEnabled() bool { return !m.writer && m.waiting == 0 }

type wgZero WaitGroup

//go:norace
func (w *wgZero) OpEnabled() bool { return w.n == 0 }

// Once: the first caller runs f; later callers wait until it has returned.
type Once struct {
	m    Mutex
	done bool
}

//go:norace
func (o *Once) Do(f func()) {
	o.m.Lock()
	defer o.m.Unlock()
	if !o.done {
		defer func() { o.done = true }()
		f()
	}
}

// Cond on top of the modelled mutex: Wait releases L, parks until signalled, re-acquires L.
type Cond struct {
	L       Locker
	id      uint64
	epoch   *vsched.Exec
	waiters []*condWaiter
}

type condWaiter struct{ woken bool }

//go:norace
func (w *condWaiter) OpEnabled() bool { return w.woken }

//go:norace
func NewCond(l Locker) *Cond { return &Cond{L: l} }

//go:norace
func (c *Cond) Wait() {
	w := &condWaiter{}
	c.waiters = append(c.waiters, w)
	c.L.Unlock()
	vsched.Point(&vsched.Op{Kind: "cond.wait", Obj: vsched.ObjID(&c.id, &c.epoch), Write: true, En: w})
	vrace.Acquire(unsafe.Pointer(c))
	c.L.Lock()
}

//go:norace
func (c *Cond) Signal() {
	vrace.ReleaseMerge(unsafe.Pointer(c))
	vsched.Event("cond.signal", vsched.ObjID(&c.id, &c.epoch), true)
	for i, w := range c.waiters {
		if !w.woken {
			w.woken = true
			c.waiters = vrace.RemoveAt(c.waiters, i)
			return
		}
	}
}

//go:norace
func (c *Cond) Broadcast() {
	vrace.ReleaseMerge(unsafe.Pointer(c))
	vsched.Event("cond.broadcast", vsched.ObjID(&c.id, &c.epoch), true)
	for _, w := range c.waiters {
		w.woken = true
	}
	c.waiters = nil
}

// Map: a mutex-protected map with the sync.Map API.
type Map struct {
	mu   Mutex
	keys []any
	vals []any
}

//go:norace
func (m *Map) find(k any) int {
	for i, x := range m.keys {
		if x == k {
			return i
		}
	}
	return -1
}

//go:norace
func (m *Map) Load(k any) (any, bool) {
	m.mu.Lock()
	defer m.mu.Unlock()
	if i := m.find(k); i >= 0 {
		return m.vals[i], true
	}
	return nil, false
}

//go:norace
func (m *Map) Store(k, v any) {
	m.mu.Lock()
	defer m.mu.Unlock()
	if i := m.find(k); i >= 0 {
		m.vals[i] = v
		return
	}
	m.keys = append(m.keys, k)
	m.vals = append(m.vals, v)
}

//go:norace
func (m *Map) LoadOrStore(k, v any) (any, bool) {
	m.mu.Lock()
	defer m.mu.Unlock()
	if i := m.find(k); i >= 0 {
		return m.vals[i], true
	}
	m.keys = append(m.keys, k)
	m.vals = append(m.vals, v)
	return v, false
}

//go:norace
func (m *Map) LoadAndDelete(k any) (any, bool) {
	m.mu.Lock()
	defer m.mu.Unlock()
	if i := m.find(k); i >= 0 {
		v := m.vals[i]
		m.keys = vrace.RemoveAt(m.keys, i)
		m.vals = vrace.RemoveAt(m.vals, i)
		return v, true
	}
	return nil, false
}

//go:norace
func (m *Map) Delete(k any) { m.LoadAndDelete(k) }

//go:norace
func (m *Map) Range(f func(k, v any) bool) {
	m.mu.Lock()
	ks := make([]any, len(m.keys))
	vs := make([]any, len(m.vals))
	for i := range m.keys {
		ks[i], vs[i] = m.keys[i], m.vals[i]
	}
	m.mu.Unlock()
	for i := range ks {
		if !f(ks[i], vs[i]) {
			return
		}
	}
}

// OnceFunc / OnceValue helpers of package sync.
//
//go:norace
func OnceFunc(f func()) func() {
	var o Once
	return func() { o.Do(f) }
}
