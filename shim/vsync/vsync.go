// Package vsync: sync primitives on top of vsched (prototype).
package vsync

import (
	"unsafe"

	"verif/vrace"
	"verif/vsched"
)

type Locker interface {
	Lock()
	Unlock()
}

type Mutex struct {
	id     uint64
	epoch  *vsched.Exec
	locked bool
}

//go:norace
func (m *Mutex) oid() uint64 { return vsched.ObjID(&m.id, &m.epoch) }

//go:norace
func (m *Mutex) Lock() {
	vsched.Point(&vsched.Op{Kind: "mutex.lock", Obj: m.oid(), Write: true, En: (*mutexFree)(m)})
	m.locked = true
	vrace.Acquire(unsafe.Pointer(m))
}

//go:norace
func (m *Mutex) TryLock() bool {
	vsched.Point(&vsched.Op{Kind: "mutex.trylock", Obj: m.oid(), Write: true})
	if m.locked {
		return false
	}
	m.locked = true
	return true
}

//go:norace
func (m *Mutex) Unlock() {
	if !m.locked {
		panic("sync: unlock of unlocked mutex")
	}
	vrace.Release(unsafe.Pointer(m))
	m.locked = false
	vsched.Event("mutex.unlock", m.oid(), true)
}

type RWMutex struct {
	id      uint64
	epoch   *vsched.Exec
	readers int
	writer  bool
	waiting int  // announced writers
	rsem    byte // race-detector sync variables, as in sync.RWMutex
	wsem    byte
}

//go:norace
func (m *RWMutex) oid() uint64 { return vsched.ObjID(&m.id, &m.epoch) }

//go:norace
func (m *RWMutex) Lock() {
	// phase 1: announce (blocks new readers, as sync.RWMutex does)
	vsched.Point(&vsched.Op{Kind: "rwmutex.lock.announce", Obj: m.oid(), Write: true})
	m.waiting++
	// phase 2: acquire
	vsched.Point(&vsched.Op{Kind: "rwmutex.lock", Obj: m.oid(), Write: true, En: (*rwWriteFree)(m)})
	m.waiting--
	m.writer = true
	vrace.Acquire(unsafe.Pointer(&m.rsem))
	vrace.Acquire(unsafe.Pointer(&m.wsem))
}

//go:norace
func (m *RWMutex) Unlock() {
	if !m.writer {
		panic("sync: Unlock of unlocked RWMutex")
	}
	vrace.Release(unsafe.Pointer(&m.rsem))
	m.writer = false
	vsched.Event("rwmutex.unlock", m.oid(), true)
}

//go:norace
func (m *RWMutex) RLock() {
	vsched.Point(&vsched.Op{Kind: "rwmutex.rlock", Obj: m.oid(), En: (*rwReadFree)(m)})
	m.readers++
	vrace.Acquire(unsafe.Pointer(&m.rsem))
}

//go:norace
func (m *RWMutex) RUnlock() {
	if m.readers <= 0 {
		panic("sync: RUnlock of unlocked RWMutex")
	}
	vrace.ReleaseMerge(unsafe.Pointer(&m.wsem))
	m.readers--
	vsched.Event("rwmutex.runlock", m.oid(), true)
}

type WaitGroup struct {
	id    uint64
	epoch *vsched.Exec
	n     int
}

//go:norace
func (w *WaitGroup) oid() uint64 { return vsched.ObjID(&w.id, &w.epoch) }

//go:norace
func (w *WaitGroup) Add(d int) {
	vrace.ReleaseMerge(unsafe.Pointer(w))
	vsched.Event("wg.add", w.oid(), true)
	w.n += d
	if w.n < 0 {
		panic("sync: negative WaitGroup counter")
	}
}

//go:norace
func (w *WaitGroup) Done() { w.Add(-1) }

//go:norace
func (w *WaitGroup) Wait() {
	vsched.Point(&vsched.Op{Kind: "wg.wait", Obj: w.oid(), En: (*wgZero)(w)})
	vrace.Acquire(unsafe.Pointer(w))
}

type Pool struct {
	New   func() any
	free  []any
	epoch *vsched.Exec
}

// a pool hanging off a package-level variable survives executions: forget its content
// whenever a new execution is seen, otherwise replays meet different choices
//
//go:norace
func (p *Pool) sync() {
	if e := vsched.Cur(); e != p.epoch {
		p.epoch = e
		p.free = nil
	}
}

//go:norace
func (p *Pool) Get() any {
	p.sync()
	n := len(p.free)
	if n == 0 {
		if p.New == nil {
			return nil
		}
		return p.New()
	}
	// options: 0 = most recently put, 1..n-1 = older ones, n = fresh
	k := vsched.ChooseEnv("pool.get", n+1)
	if k == n {
		if p.New != nil {
			return p.New()
		}
		k = 0
	}
	i := n - 1 - k
	x := p.free[i]
	p.free = vrace.RemoveAt(p.free, i)
	vrace.Acquire(unsafe.Pointer(p))
	return x
}

//go:norace
func (p *Pool) Put(x any) {
	p.sync()
	vrace.ReleaseMerge(unsafe.Pointer(p))
	p.free = append(p.free, x)
}

type mutexFree Mutex

//go:norace
func (m *mutexFree) OpEnabled() bool { return !m.locked }

type rwWriteFree RWMutex

//go:norace
func (m *rwWriteFree) OpEnabled() bool { return !m.writer && m.readers == 0 }

type rwReadFree RWMutex

//go:norace
func (m *rwReadFree) OpEnabled() bool { return !m.writer && m.waiting == 0 }

type wgZero WaitGroup

//go:norace
func (w *wgZero) OpEnabled() bool { return w.n == 0 }
