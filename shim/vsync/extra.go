package vsync

import (
	"unsafe"

	"verif/vrace"
	"verif/vsched"
)

// Less common parts of package sync (an edit that uses them is explored, not refused).

//go:norace
func (m *RWMutex) TryLock() bool {
	vsched.Point(&vsched.Op{Kind: "rwmutex.trylock", Obj: m.oid(), Write: true})
	if m.writer || m.readers > 0 || m.waiting > 0 {
		return false
	}
	m.writer = true
	vrace.Acquire(unsafe.Pointer(&m.rsem))
	vrace.Acquire(unsafe.Pointer(&m.wsem))
	return true
}

//go:norace
func (m *RWMutex) TryRLock() bool {
	vsched.Point(&vsched.Op{Kind: "rwmutex.tryrlock", Obj: m.oid(), Write: true})
	if m.writer || m.waiting > 0 {
		return false
	}
	m.readers++
	vrace.Acquire(unsafe.Pointer(&m.rsem))
	return true
}

type rlocker RWMutex

//go:norace
func (r *rlocker) Lock() { (*RWMutex)(r).RLock() }

//go:norace
func (r *rlocker) Unlock() { (*RWMutex)(r).RUnlock() }

//go:norace
func (m *RWMutex) RLocker() Locker { return (*rlocker)(m) }

func OnceValue[T any](f func() T) func() T {
	var o Once
	var v T
	return func() T {
		o.Do(func() { v = f() })
		return v
	}
}

func OnceValues[T1, T2 any](f func() (T1, T2)) func() (T1, T2) {
	var o Once
	var a T1
	var b T2
	return func() (T1, T2) {
		o.Do(func() { a, b = f() })
		return a, b
	}
}

//go:norace
func (m *Map) Swap(k, v any) (any, bool) {
	m.mu.Lock()
	defer m.mu.Unlock()
	if i := m.find(k); i >= 0 {
		old := m.vals[i]
		m.vals[i] = v
		return old, true
	}
	m.keys = append(m.keys, k)
	m.vals = append(m.vals, v)
	return nil, false
}

//go:norace
func (m *Map) CompareAndSwap(k, old, new any) bool {
	m.mu.Lock()
	defer m.mu.Unlock()
	if i := m.find(k); i >= 0 && m.vals[i] == old {
		m.vals[i] = new
		return true
	}
	return false
}

//go:norace
func (m *Map) CompareAndDelete(k, old any) bool {
	m.mu.Lock()
	defer m.mu.Unlock()
	if i := m.find(k); i >= 0 && m.vals[i] == old {
		m.keys = vrace.RemoveAt(m.keys, i)
		m.vals = vrace.RemoveAt(m.vals, i)
		return true
	}
	return false
}

//go:norace
func (m *Map) Clear() {
	m.mu.Lock()
	defer m.mu.Unlock()
	m.keys, m.vals = nil, nil
}
