// Package vos: in-memory file system standing in for package os.
//
// Every mutating operation is appended to a log (the crash-point alphabet); each inode tracks
// the length covered by its last fsync (the torn-write model). Optionally every file-system
// operation is a scheduling point, so that the explorer interleaves the file operations of
// different goroutines.
//
// Tables are slices, not built-in maps: the race detector instruments map operations even in
// //go:norace functions, and this state is touched by several virtual threads.
package vos

import (
	"errors"
	"io"
	"io/fs"
	"path"
	"sort"
	"time"
	"unsafe"

	"verif/vrace"
	"verif/vsched"
)

type FileMode = fs.FileMode
type FileInfo = fs.FileInfo
type DirEntry = fs.DirEntry
type PathError = fs.PathError

const (
	O_RDONLY = 0x0
	O_WRONLY = 0x1
	O_RDWR   = 0x2
	O_APPEND = 0x400
	O_CREATE = 0x40
	O_EXCL   = 0x80
	O_SYNC   = 0x101000
	O_TRUNC  = 0x200

	ModePerm = fs.ModePerm
)

var (
	ErrNotExist = fs.ErrNotExist
	ErrExist    = fs.ErrExist
	ErrClosed   = fs.ErrClosed
	ErrInvalid  = fs.ErrInvalid
)

type inode struct {
	data   []byte
	synced int
	id     int
}

// Op is one entry of the mutation log.
type Op struct {
	Kind string // create | truncate | write | fsync | remove | rename | mkdir | mark
	Path string
	Data []byte // write: the bytes
	Off  int64  // write: offset; truncate: new size
	To   string // rename target
	Mark string // harness marker (not a mutation)
	Tid  int
	Ino  int // inode number (create/write/fsync/truncate address the inode, not the path)
}

type ent struct {
	name string
	ino  *inode
}

type FS struct {
	files   []ent
	dirs    []string
	Log     []Op
	nextIno int
	// Points: every FS operation is a scheduling point (crash/flush interleavings)
	Points bool
	// Overwrites counts writes that modified bytes below a file's synced length
	Overwrites int
}

//go:norace
func NewFS() *FS { return &FS{dirs: []string{"/"}} }

var cur = NewFS()

//go:norace
func init() { vsched.OnRunStart(func() { cur = NewFS() }) }

//go:norace
func SetFS(f *FS) { cur = f }

//go:norace
func CurFS() *FS { return cur }

//go:norace
func (f *FS) lookup(name string) *inode {
	for i := range f.files {
		if f.files[i].name == name {
			return f.files[i].ino
		}
	}
	return nil
}

//go:norace
func (f *FS) put(name string, ino *inode) {
	for i := range f.files {
		if f.files[i].name == name {
			f.files[i].ino = ino
			return
		}
	}
	f.files = append(f.files, ent{name, ino})
}

//go:norace
func (f *FS) del(name string) {
	for i := range f.files {
		if f.files[i].name == name {
			f.files = vrace.RemoveAt(f.files, i)
			return
		}
	}
}

//go:norace
func (f *FS) hasDir(d string) bool {
	for _, x := range f.dirs {
		if x == d {
			return true
		}
	}
	return false
}

// Clone returns an independent copy of the file system (without the log).
//
//go:norace
func (f *FS) Clone() *FS {
	g := &FS{dirs: vrace.CloneStrings(f.dirs)}
	for i, e := range f.files {
		g.files = append(g.files, ent{e.name, &inode{data: vrace.CloneBytes(e.ino.data), synced: e.ino.synced, id: i}})
	}
	g.nextIno = len(f.files)
	return g
}

// Names lists all file paths, sorted.
//
//go:norace
func (f *FS) Names() []string {
	var r []string
	for _, e := range f.files {
		r = append(r, e.name)
	}
	sort.Strings(r)
	return r
}

// Content returns the bytes of a file (nil, false when absent).
//
//go:norace
func (f *FS) Content(name string) ([]byte, bool) {
	ino := f.lookup(path.Clean(name))
	if ino == nil {
		return nil, false
	}
	return ino.data, true
}

// SyncedLen returns the synced length of a file.
//
//go:norace
func (f *FS) SyncedLen(name string) int {
	ino := f.lookup(path.Clean(name))
	if ino == nil {
		return 0
	}
	return ino.synced
}

// Dirty lists files with unsynced tails: path and unsynced byte count, sorted by path.
//
//go:norace
func (f *FS) Dirty() (paths []string, tails []int) {
	for _, n := range f.Names() {
		ino := f.lookup(n)
		if len(ino.data) > ino.synced {
			paths = append(paths, n)
			tails = append(tails, len(ino.data)-ino.synced)
		}
	}
	return
}

// Cut drops the last n unsynced bytes of a file (torn-write model; never below the synced length).
//
//go:norace
func (f *FS) Cut(name string, n int) {
	ino := f.lookup(name)
	if ino == nil {
		return
	}
	keep := len(ino.data) - n
	if keep < ino.synced {
		keep = ino.synced
	}
	ino.data = ino.data[:keep]
}

// Hash returns a content hash of the file system (names, bytes, synced lengths).
//
//go:norace
func (f *FS) Hash() uint64 {
	var h uint64 = 14695981039346656037
	for _, n := range f.Names() {
		ino := f.lookup(n)
		h = vsched.Mix(h, vsched.HashString(n))
		h = vsched.Mix(h, vsched.HashString(string(ino.data)))
		h = vsched.Mix(h, uint64(ino.synced))
	}
	return h
}

// Image rebuilds the file system as it is after the first k log entries (process-crash model:
// every completed operation persists).
//
//go:norace
func Image(log []Op, k int) *FS { return ImageFrom(nil, log, k) }

// ImageFrom applies the first k log entries of a run that started on (a clone of) base.
//
//go:norace
func ImageFrom(base *FS, log []Op, k int) *FS {
	f := NewFS()
	var inos []*inode
	if base != nil {
		f = base.Clone()
		for _, e := range f.files {
			for len(inos) <= e.ino.id {
				inos = append(inos, nil)
			}
			inos[e.ino.id] = e.ino
		}
	}
	byIno := func(op Op) *inode {
		if op.Ino >= 0 && op.Ino < len(inos) {
			return inos[op.Ino]
		}
		return nil
	}
	for _, op := range log[:k] {
		switch op.Kind {
		case "mkdir":
			if !f.hasDir(op.Path) {
				f.dirs = append(f.dirs, op.Path)
			}
		case "create":
			ino := &inode{id: op.Ino}
			for len(inos) <= op.Ino {
				inos = append(inos, nil)
			}
			inos[op.Ino] = ino
			f.put(op.Path, ino)
		case "truncate":
			if ino := byIno(op); ino != nil {
				if int(op.Off) < len(ino.data) {
					ino.data = ino.data[:op.Off]
				} else {
					nd := make([]byte, op.Off)
					vrace.CopyBytes(nd, ino.data)
					ino.data = nd
				}
				if ino.synced > len(ino.data) {
					ino.synced = len(ino.data)
				}
			}
		case "write":
			if ino := byIno(op); ino != nil {
				end := op.Off + int64(len(op.Data))
				if end > int64(len(ino.data)) {
					nd := make([]byte, end)
					vrace.CopyBytes(nd, ino.data)
					ino.data = nd
				}
				vrace.CopyBytes(ino.data[op.Off:], op.Data)
			}
		case "fsync":
			if ino := byIno(op); ino != nil {
				ino.synced = len(ino.data)
			}
		case "remove":
			f.del(op.Path)
		case "rename":
			if ino := f.lookup(op.Path); ino != nil {
				f.del(op.Path)
				f.put(op.To, ino)
			}
		}
	}
	return f
}

// MarkEvent records a harness event in the op log (commit acknowledged, ...).
//
//go:norace
func MarkEvent(m string) {
	cur.Log = append(cur.Log, Op{Kind: "mark", Mark: m, Tid: vsched.CurThreadID()})
}

//go:norace
func hpath(p string) uint64 { return vsched.HashString(p) | 1<<63 }

// pt: scheduling point (if enabled) before a file-system operation.
//
//go:norace
func pt(kind, p string, write bool) {
	if cur.Points && vsched.InThread() {
		vsched.Point(&vsched.Op{Kind: "fs." + kind, Obj: hpath(p), Write: write})
	} else {
		vsched.Event("fs."+kind, hpath(p), write)
	}
}

//go:norace
func (f *FS) logOp(op Op) {
	op.Tid = vsched.CurThreadID()
	f.Log = append(f.Log, op)
}

type File struct {
	name   string
	ino    *inode
	off    int64
	flag   int
	closed bool
}

//go:norace
func IsNotExist(err error) bool { return errors.Is(err, fs.ErrNotExist) }

//go:norace
func IsExist(err error) bool { return errors.Is(err, fs.ErrExist) }

//go:norace
func perr(op, p string, err error) error { return &fs.PathError{Op: op, Path: p, Err: err} }

//go:norace
func Mkdir(p string, perm FileMode) error {
	p = path.Clean(p)
	if cur.hasDir(p) || cur.lookup(p) != nil {
		return perr("mkdir", p, fs.ErrExist)
	}
	if !cur.hasDir(path.Dir(p)) {
		return perr("mkdir", p, fs.ErrNotExist)
	}
	pt("dir", path.Dir(p), true)
	cur.dirs = append(cur.dirs, p)
	cur.logOp(Op{Kind: "mkdir", Path: p})
	return nil
}

//go:norace
func MkdirAll(p string, perm FileMode) error {
	p = path.Clean(p)
	var missing []string
	for d := p; d != "/" && d != "."; d = path.Dir(d) {
		if cur.lookup(d) != nil {
			return perr("mkdir", d, errors.New("not a directory"))
		}
		if !cur.hasDir(d) {
			missing = append(missing, d)
		}
	}
	for i := len(missing) - 1; i >= 0; i-- {
		pt("dir", path.Dir(missing[i]), true)
		cur.dirs = append(cur.dirs, missing[i])
		cur.logOp(Op{Kind: "mkdir", Path: missing[i]})
	}
	return nil
}

//go:norace
func OpenFile(name string, flag int, perm FileMode) (*File, error) {
	name = path.Clean(name)
	if flag&(O_CREATE|O_TRUNC) != 0 {
		pt("open", name, true)
	} else {
		pt("open", name, false)
	}
	if cur.hasDir(name) {
		if flag&(O_WRONLY|O_RDWR) != 0 {
			return nil, perr("open", name, errors.New("is a directory"))
		}
		return &File{name: name, ino: &inode{}, flag: flag}, nil
	}
	ino := cur.lookup(name)
	if ino == nil {
		if flag&O_CREATE == 0 {
			return nil, perr("open", name, fs.ErrNotExist)
		}
		if !cur.hasDir(path.Dir(name)) {
			return nil, perr("open", name, fs.ErrNotExist)
		}
		ino = &inode{id: cur.nextIno}
		cur.nextIno++
		cur.put(name, ino)
		cur.logOp(Op{Kind: "create", Path: name, Ino: ino.id})
		vsched.Event("fs.dir", hpath(path.Dir(name)), true)
	} else {
		if flag&O_CREATE != 0 && flag&O_EXCL != 0 {
			return nil, perr("open", name, fs.ErrExist)
		}
		if flag&O_TRUNC != 0 && flag&(O_WRONLY|O_RDWR) != 0 && len(ino.data) > 0 {
			ino.data = nil
			ino.synced = 0
			cur.logOp(Op{Kind: "truncate", Path: name, Off: 0, Ino: ino.id})
		}
	}
	return &File{name: name, ino: ino, flag: flag}, nil
}

//go:norace
func Open(name string) (*File, error) { return OpenFile(name, O_RDONLY, 0) }

//go:norace
func Create(name string) (*File, error) { return OpenFile(name, O_RDWR|O_CREATE|O_TRUNC, 0o666) }

//go:norace
func Remove(name string) error {
	name = path.Clean(name)
	pt("remove", name, true)
	if cur.lookup(name) == nil {
		if cur.hasDir(name) {
			for _, e := range cur.files {
				if path.Dir(e.name) == name {
					return perr("remove", name, errors.New("directory not empty"))
				}
			}
			for i, d := range cur.dirs {
				if d == name {
					cur.dirs = vrace.RemoveAt(cur.dirs, i)
					break
				}
			}
			return nil
		}
		return perr("remove", name, fs.ErrNotExist)
	}
	cur.del(name)
	cur.logOp(Op{Kind: "remove", Path: name})
	vsched.Event("fs.dir", hpath(path.Dir(name)), true)
	return nil
}

//go:norace
func RemoveAll(name string) error {
	name = path.Clean(name)
	for _, n := range cur.Names() {
		if n == name || len(n) > len(name) && n[:len(name)+1] == name+"/" {
			if err := Remove(n); err != nil {
				return err
			}
		}
	}
	return nil
}

//go:norace
func Rename(a, b string) error {
	a, b = path.Clean(a), path.Clean(b)
	pt("rename", a, true)
	ino := cur.lookup(a)
	if ino == nil {
		return &LinkError{Op: "rename", Old: a, New: b, Err: fs.ErrNotExist}
	}
	if !cur.hasDir(path.Dir(b)) {
		return &LinkError{Op: "rename", Old: a, New: b, Err: fs.ErrNotExist}
	}
	cur.del(a)
	cur.put(b, ino)
	cur.logOp(Op{Kind: "rename", Path: a, To: b})
	vsched.Event("fs.rename", hpath(b), true)
	vsched.Event("fs.dir", hpath(path.Dir(a)), true)
	vsched.Event("fs.dir", hpath(path.Dir(b)), true)
	return nil
}

type LinkError struct {
	Op  string
	Old string
	New string
	Err error
}

//go:norace
func (e *LinkError) Error() string { return e.Op + " " + e.Old + " " + e.New + ": " + e.Err.Error() }

//go:norace
func (e *LinkError) Unwrap() error { return e.Err }

//go:norace
func Truncate(name string, size int64) error {
	f, err := OpenFile(name, O_WRONLY, 0)
	if err != nil {
		return err
	}
	return f.Truncate(size)
}

//go:norace
func WriteFile(name string, data []byte, perm FileMode) error {
	f, err := OpenFile(name, O_WRONLY|O_CREATE|O_TRUNC, perm)
	if err != nil {
		return err
	}
	_, err = f.Write(data)
	if e := f.Close(); err == nil {
		err = e
	}
	return err
}

//go:norace
func ReadFile(name string) ([]byte, error) {
	f, err := Open(name)
	if err != nil {
		return nil, err
	}
	defer f.Close()
	pt("read", f.name, false)
	return vrace.CloneBytes(f.ino.data), nil
}

type info struct {
	name string
	size int64
	dir  bool
}

//go:norace
func (i info) Name() string { return i.name }

//go:norace
func (i info) Size() int64 { return i.size }

//go:norace
func (i info) Mode() FileMode {
	if i.dir {
		return fs.ModeDir | 0o755
	}
	return 0o644
}

//go:norace
func (i info) ModTime() time.Time { return time.Time{} }

//go:norace
func (i info) IsDir() bool { return i.dir }

//go:norace
func (i info) Sys() any { return nil }

//go:norace
func (i info) Type() FileMode { return i.Mode().Type() }

//go:norace
func (i info) Info() (fs.FileInfo, error) { return i, nil }

//go:norace
func Stat(name string) (FileInfo, error) {
	name = path.Clean(name)
	pt("stat", name, false)
	if ino := cur.lookup(name); ino != nil {
		return info{name: path.Base(name), size: int64(len(ino.data))}, nil
	}
	if cur.hasDir(name) {
		return info{name: path.Base(name), dir: true}, nil
	}
	return nil, perr("stat", name, fs.ErrNotExist)
}

//go:norace
func Lstat(name string) (FileInfo, error) { return Stat(name) }

//go:norace
func ReadDir(dir string) ([]DirEntry, error) {
	dir = path.Clean(dir)
	pt("dir", dir, false)
	if !cur.hasDir(dir) {
		return nil, perr("open", dir, fs.ErrNotExist)
	}
	var r []DirEntry
	for _, e := range cur.files {
		if path.Dir(e.name) == dir {
			r = append(r, info{name: path.Base(e.name), size: int64(len(e.ino.data))})
		}
	}
	for _, d := range cur.dirs {
		if d != dir && path.Dir(d) == dir {
			r = append(r, info{name: path.Base(d), dir: true})
		}
	}
	sort.Slice(r, func(i, j int) bool { return r[i].Name() < r[j].Name() })
	return r, nil
}

//go:norace
func (f *File) Name() string { return f.name }

//go:norace
func (f *File) Write(p []byte) (int, error) {
	if f.closed {
		return 0, perr("write", f.name, fs.ErrClosed)
	}
	if f.flag&(O_WRONLY|O_RDWR) == 0 {
		return 0, perr("write", f.name, errors.New("bad file descriptor"))
	}
	pt("write", f.name, true)
	if f.flag&O_APPEND != 0 {
		f.off = int64(len(f.ino.data))
	}
	n, err := f.writeAt(p, f.off)
	f.off += int64(n)
	return n, err
}

//go:norace
func (f *File) writeAt(p []byte, off int64) (int, error) {
	if len(p) == 0 {
		return 0, nil
	}
	if off < int64(f.ino.synced) {
		cur.Overwrites++
		// the overwritten range is no longer known to be stable
		f.ino.synced = int(off)
	}
	end := off + int64(len(p))
	if end > int64(len(f.ino.data)) {
		nd := make([]byte, end)
		vrace.CopyBytes(nd, f.ino.data)
		f.ino.data = nd
	}
	vrace.CopyBytes(f.ino.data[off:], p)
	vrace.ReadRange(unsafe.Pointer(&p[0]), len(p))
	cur.logOp(Op{Kind: "write", Path: f.name, Data: vrace.CloneBytes(p), Off: off, Ino: f.ino.id})
	return len(p), nil
}

//go:norace
func (f *File) WriteAt(p []byte, off int64) (int, error) {
	if f.closed {
		return 0, perr("write", f.name, fs.ErrClosed)
	}
	if f.flag&(O_WRONLY|O_RDWR) == 0 {
		return 0, perr("write", f.name, errors.New("bad file descriptor"))
	}
	if f.flag&O_APPEND != 0 {
		return 0, errors.New("os: invalid use of WriteAt on file opened with O_APPEND")
	}
	pt("write", f.name, true)
	return f.writeAt(p, off)
}

//go:norace
func (f *File) WriteString(s string) (int, error) { return f.Write([]byte(s)) }

//go:norace
func (f *File) Read(p []byte) (int, error) {
	if f.closed {
		return 0, perr("read", f.name, fs.ErrClosed)
	}
	if f.flag&O_WRONLY != 0 {
		return 0, perr("read", f.name, errors.New("bad file descriptor"))
	}
	pt("read", f.name, false)
	if len(p) == 0 {
		return 0, nil
	}
	if f.off >= int64(len(f.ino.data)) {
		return 0, io.EOF
	}
	n := vrace.CopyBytes(p, f.ino.data[f.off:])
	if n > 0 {
		vrace.WriteRange(unsafe.Pointer(&p[0]), n)
	}
	f.off += int64(n)
	return n, nil
}

//go:norace
func (f *File) ReadAt(p []byte, off int64) (int, error) {
	if f.closed {
		return 0, perr("read", f.name, fs.ErrClosed)
	}
	pt("read", f.name, false)
	if off >= int64(len(f.ino.data)) {
		return 0, io.EOF
	}
	n := vrace.CopyBytes(p, f.ino.data[off:])
	if n > 0 {
		vrace.WriteRange(unsafe.Pointer(&p[0]), n)
	}
	if n < len(p) {
		return n, io.EOF
	}
	return n, nil
}

//go:norace
func (f *File) Seek(off int64, whence int) (int64, error) {
	if f.closed {
		return 0, perr("seek", f.name, fs.ErrClosed)
	}
	var base int64
	switch whence {
	case io.SeekStart:
	case io.SeekCurrent:
		base = f.off
	case io.SeekEnd:
		pt("stat", f.name, false)
		base = int64(len(f.ino.data))
	default:
		return 0, perr("seek", f.name, errors.New("invalid argument"))
	}
	if base+off < 0 {
		return 0, perr("seek", f.name, errors.New("invalid argument"))
	}
	f.off = base + off
	return f.off, nil
}

//go:norace
func (f *File) Truncate(size int64) error {
	if f.closed {
		return perr("truncate", f.name, fs.ErrClosed)
	}
	if f.flag&(O_WRONLY|O_RDWR) == 0 {
		return perr("truncate", f.name, errors.New("invalid argument"))
	}
	pt("write", f.name, true)
	if size < int64(len(f.ino.data)) {
		f.ino.data = f.ino.data[:size]
	} else {
		nd := make([]byte, size)
		vrace.CopyBytes(nd, f.ino.data)
		f.ino.data = nd
	}
	if f.ino.synced > int(size) {
		f.ino.synced = int(size)
	}
	cur.logOp(Op{Kind: "truncate", Path: f.name, Off: size, Ino: f.ino.id})
	return nil
}

//go:norace
func (f *File) Sync() error {
	if f.closed {
		return perr("sync", f.name, fs.ErrClosed)
	}
	pt("fsync", f.name, true)
	f.ino.synced = len(f.ino.data)
	cur.logOp(Op{Kind: "fsync", Path: f.name, Ino: f.ino.id})
	return nil
}

//go:norace
func (f *File) Close() error {
	if f.closed {
		return perr("close", f.name, fs.ErrClosed)
	}
	f.closed = true
	return nil
}

//go:norace
func (f *File) Stat() (FileInfo, error) {
	if f.closed {
		return nil, perr("stat", f.name, fs.ErrClosed)
	}
	pt("stat", f.name, false)
	return info{name: path.Base(f.name), size: int64(len(f.ino.data))}, nil
}

//go:norace
func (f *File) ReadFrom(r io.Reader) (int64, error) {
	b, err := io.ReadAll(r)
	if err != nil {
		return 0, err
	}
	n, err := f.Write(b)
	return int64(n), err
}
