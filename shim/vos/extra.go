package vos

// Less common parts of package os, so that an edit of the repository that uses them is explored instead of ending
// in an instrumentation error (or, worse, reaching the real file system behind the in-memory one).

import (
	"errors"
	"fmt"
	"io"
	"io/fs"
	"os"
	"path"
	"strings"
)

var (
	ErrPermission = fs.ErrPermission
	Stdin         = os.Stdin
	Stdout        = os.Stdout
	Stderr        = os.Stderr
	Args          = []string{"originium"}
)

const (
	PathSeparator     = '/'
	PathListSeparator = ':'
	DevNull           = "/dev/null"
	ModeDir           = fs.ModeDir
	ModeAppend        = fs.ModeAppend
	ModeExclusive     = fs.ModeExclusive
	ModeTemporary     = fs.ModeTemporary
	ModeSymlink       = fs.ModeSymlink
	ModeType          = fs.ModeType
	SEEK_SET          = 0
	SEEK_CUR          = 1
	SEEK_END          = 2
)

//go:norace
func IsPermission(err error) bool { return errors.Is(err, fs.ErrPermission) }

//go:norace
func IsTimeout(err error) bool { return false }

//go:norace
func Getwd() (string, error) { return "/", nil }

//go:norace
func Getpid() int { return 1 }

//go:norace
func Getenv(k string) string { return "" }

//go:norace
func LookupEnv(k string) (string, bool) { return "", false }

//go:norace
func Hostname() (string, error) { return "verif", nil }

//go:norace
func TempDir() string { return "/tmp" }

//go:norace
func UserHomeDir() (string, error) { return "/", nil }

//go:norace
func Exit(code int) { panic(fmt.Sprintf("os.Exit(%d)", code)) }

//go:norace
func Chmod(name string, mode FileMode) error {
	if _, err := Stat(name); err != nil {
		return err
	}
	return nil
}

//go:norace
func SameFile(a, b FileInfo) bool { return a.Name() == b.Name() && a.Size() == b.Size() }

// tempName: deterministic replacement of the random part of CreateTemp/MkdirTemp names.
//
//go:norace
func tempName(dir, pattern string, exists func(string) bool) string {
	if dir == "" {
		dir = TempDir()
	}
	pre, suf := pattern, ""
	if i := strings.LastIndex(pattern, "*"); i >= 0 {
		pre, suf = pattern[:i], pattern[i+1:]
	}
	for n := 1; ; n++ {
		p := path.Join(dir, fmt.Sprintf("%s%09d%s", pre, n, suf))
		if !exists(p) {
			return p
		}
	}
}

//go:norace
func CreateTemp(dir, pattern string) (*File, error) {
	if dir == "" {
		MkdirAll(TempDir(), 0o755)
	}
	name := tempName(dir, pattern, func(p string) bool { return cur.lookup(p) != nil || cur.hasDir(p) })
	return OpenFile(name, O_RDWR|O_CREATE|O_EXCL, 0o600)
}

//go:norace
func MkdirTemp(dir, pattern string) (string, error) {
	if dir == "" {
		MkdirAll(TempDir(), 0o755)
	}
	name := tempName(dir, pattern, func(p string) bool { return cur.lookup(p) != nil || cur.hasDir(p) })
	return name, Mkdir(name, 0o700)
}

// ---- directory handles

//go:norace
func (f *File) ReadDir(n int) ([]DirEntry, error) {
	if !cur.hasDir(f.name) {
		return nil, perr("readdir", f.name, errors.New("not a directory"))
	}
	es, err := ReadDir(f.name)
	if err != nil {
		return nil, err
	}
	// a directory handle is read once: later calls continue after what was returned
	if int(f.off) >= len(es) {
		if n > 0 {
			return nil, io.EOF
		}
		return nil, nil
	}
	es = es[f.off:]
	if n > 0 && len(es) > n {
		es = es[:n]
	}
	f.off += int64(len(es))
	return es, nil
}

//go:norace
func (f *File) Readdir(n int) ([]FileInfo, error) {
	es, err := f.ReadDir(n)
	var r []FileInfo
	for _, e := range es {
		i, _ := e.Info()
		r = append(r, i)
	}
	return r, err
}

//go:norace
func (f *File) Readdirnames(n int) ([]string, error) {
	es, err := f.ReadDir(n)
	var r []string
	for _, e := range es {
		r = append(r, e.Name())
	}
	return r, err
}

//go:norace
func (f *File) Chmod(mode FileMode) error { return nil }
