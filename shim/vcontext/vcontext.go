// Package vcontext: context on top of vchan (prototype).
package vcontext

import (
	"errors"

	"verif/shim/vchan"
)

var Canceled = errors.New("context canceled")

type Context interface {
	Done() *vchan.Chan[struct{}]
	Err() error
}

type bg struct{}

//go:norace
func (bg) Done() *vchan.Chan[struct{}] { return nil }

//go:norace
func (bg) Err() error { return nil }

//go:norace
func Background() Context { return bg{} }

//go:norace
func TODO() Context { return bg{} }

type cancelCtx struct {
	done *vchan.Chan[struct{}]
	err  error
}

//go:norace
func (c *cancelCtx) Done() *vchan.Chan[struct{}] { return c.done }

//go:norace
func (c *cancelCtx) Err() error { return c.err }

type CancelFunc func()

//go:norace
func WithCancel(parent Context) (Context, CancelFunc) {
	c := &cancelCtx{done: vchan.Make[struct{}](0)}
	return c, func() {
		if c.err == nil {
			c.err = Canceled
			vchan.Close(c.done)
		}
	}
}
