// Package vcontext: context on top of vchan and the virtual clock.
package vcontext

import (
	"errors"
	"time"

	"verif/shim/vchan"
	"verif/shim/vtime"
)

var Canceled = errors.New("context canceled")

type deadlineErr struct{}

func (deadlineErr) Error() string   { return "context deadline exceeded" }
func (deadlineErr) Timeout() bool   { return true }
func (deadlineErr) Temporary() bool { return true }

var DeadlineExceeded error = deadlineErr{}

type Context interface {
	Done() *vchan.Chan[struct{}]
	Err() error
	Deadline() (time.Time, bool)
	Value(key any) any
}

type bg struct{}

//go:norace
func (bg) Done() *vchan.Chan[struct{}] { return nil }

//go:norace
func (bg) Err() error { return nil }

//go:norace
func (bg) Deadline() (time.Time, bool) { return time.Time{}, false }

//go:norace
func (bg) Value(any) any { return nil }

//go:norace
func Background() Context { return bg{} }

//go:norace
func TODO() Context { return bg{} }

type cancelCtx struct {
	parent   Context
	done     *vchan.Chan[struct{}]
	err      error
	deadline time.Time
	hasDL    bool
	children []*cancelCtx
	key, val any
	cause    error
	onCancel func() // AfterFunc
}

//go:norace
func (c *cancelCtx) Done() *vchan.Chan[struct{}] { return c.done }

//go:norace
func (c *cancelCtx) Err() error { return c.err }

//go:norace
func (c *cancelCtx) Deadline() (time.Time, bool) {
	if c.hasDL {
		return c.deadline, true
	}
	return c.parent.Deadline()
}

//go:norace
func (c *cancelCtx) Value(key any) any {
	if c.key != nil && c.key == key {
		return c.val
	}
	return c.parent.Value(key)
}

//go:norace
func (c *cancelCtx) cancel(err error) {
	if c.err != nil {
		return
	}
	c.err = err
	vchan.Close(c.done)
	if c.onCancel != nil {
		c.onCancel()
	}
	for _, ch := range c.children {
		ch.cancel(err)
	}
}

type CancelFunc func()

//go:norace
func newCtx(parent Context) *cancelCtx {
	c := &cancelCtx{parent: parent, done: vchan.Make[struct{}](0)}
	if p, ok := parent.(*cancelCtx); ok {
		if p.err != nil {
			c.err = p.err
			vchan.Close(c.done)
		} else {
			p.children = append(p.children, c)
		}
	}
	return c
}

//go:norace
func WithCancel(parent Context) (Context, CancelFunc) {
	c := newCtx(parent)
	return c, func() { c.cancel(Canceled) }
}

//go:norace
func WithTimeout(parent Context, d time.Duration) (Context, CancelFunc) {
	c := newCtx(parent)
	c.deadline, c.hasDL = vtime.Now().Add(d), true
	t := vtime.AfterFunc(d, func() { c.cancel(DeadlineExceeded) })
	return c, func() { t.Stop(); c.cancel(Canceled) }
}

//go:norace
func WithDeadline(parent Context, at time.Time) (Context, CancelFunc) {
	return WithTimeout(parent, vtime.Until(at))
}

//go:norace
func WithValue(parent Context, key, val any) Context {
	c := newCtx(parent)
	c.key, c.val = key, val
	return c
}
