package vcontext

import (
	"time"

	"verif/shim/vchan"
	"verif/shim/vtime"
	"verif/vsched"
)

// Less common parts of package context.

type CancelCauseFunc func(cause error)

//go:norace
func (c *cancelCtx) cancelCause(err, cause error) {
	if c.err == nil {
		c.cause = cause
	}
	c.cancel(err)
}

//go:norace
func WithCancelCause(parent Context) (Context, CancelCauseFunc) {
	c := newCtx(parent)
	return c, func(cause error) { c.cancelCause(Canceled, cause) }
}

//go:norace
func WithTimeoutCause(parent Context, d time.Duration, cause error) (Context, CancelFunc) {
	c := newCtx(parent)
	c.deadline, c.hasDL = vtime.Now().Add(d), true
	t := vtime.AfterFunc(d, func() { c.cancelCause(DeadlineExceeded, cause) })
	return c, func() { t.Stop(); c.cancel(Canceled) }
}

//go:norace
func WithDeadlineCause(parent Context, at time.Time, cause error) (Context, CancelFunc) {
	return WithTimeoutCause(parent, vtime.Until(at), cause)
}

// Cause: the cause given to the cancellation that ended c (of c itself or of the ancestor that was cancelled
// first), the context error when none was given, nil while c is not done.
//
//go:norace
func Cause(c Context) error {
	cc, ok := c.(*cancelCtx)
	if !ok || cc.err == nil {
		return nil
	}
	for x := cc; ; {
		if x.cause != nil {
			return x.cause
		}
		p, ok := x.parent.(*cancelCtx)
		if !ok || p.err == nil {
			return cc.err
		}
		x = p
	}
}

// valueOnly keeps the values of a context and drops its cancellation and deadline.
type valueOnly struct{ p Context }

//go:norace
func (v valueOnly) Done() *vchan.Chan[struct{}] { return nil }

//go:norace
func (v valueOnly) Err() error { return nil }

//go:norace
func (v valueOnly) Deadline() (time.Time, bool) { return time.Time{}, false }

//go:norace
func (v valueOnly) Value(k any) any { return v.p.Value(k) }

//go:norace
func WithoutCancel(parent Context) Context { return valueOnly{parent} }

// AfterFunc runs f in its own goroutine once ctx is done; stop reports whether it prevented the call.
//
//go:norace
func AfterFunc(ctx Context, f func()) (stop func() bool) {
	c := newCtx(ctx)
	stopped, ran := false, false
	fire := func() {
		if !stopped && !ran {
			ran = true
			vsched.Go(f)
		}
	}
	if c.err != nil {
		fire()
	} else {
		c.onCancel = fire
	}
	return func() bool {
		if ran || stopped {
			return false
		}
		stopped = true
		return true
	}
}
