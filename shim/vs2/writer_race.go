//go:build race

package vs2

import (
	"io"

	"github.com/klauspost/compress/s2"
)

// In the race tier every s2.Writer would allocate 2.2 MB of buffers whose shadow memory the race
// detector has to map and reset (85% of the run time). A 4 KiB block size (the minimum) produces byte-identical
// streams for inputs up to the block size (checked: equal output for every input length up to the block size, different above), and the race scenarios only encode a
// few hundred bytes, so the smaller buffers do not change what is explored.
func NewWriter(w io.Writer, opts ...WriterOption) *Writer {
	return s2.NewWriter(w, append([]WriterOption{s2.WriterBlockSize(4 << 10)}, opts...)...)
}
