// Package vs2 forwards to github.com/klauspost/compress/s2. The only difference: readers are
// created with ReaderAllocBlock(4 KiB), which the library documents as a pure allocation hint
// ("if frames bigger than this is seen a bigger buffer will be allocated"). Without it every
// table lookup of the engine clears a fresh 1.2 MB buffer and the explorers are memory-bound.
package vs2

import (
	"io"

	"github.com/klauspost/compress/s2"
)

type (
	Reader       = s2.Reader
	Writer       = s2.Writer
	ReaderOption = s2.ReaderOption
	WriterOption = s2.WriterOption
)

func NewReader(r io.Reader, opts ...ReaderOption) *Reader {
	return s2.NewReader(r, append([]ReaderOption{s2.ReaderAllocBlock(4 << 10)}, opts...)...)
}

var (
	Encode                  = s2.Encode
	EncodeBetter            = s2.EncodeBetter
	EncodeBest              = s2.EncodeBest
	EncodeSnappy            = s2.EncodeSnappy
	Decode                  = s2.Decode
	DecodedLen              = s2.DecodedLen
	MaxEncodedLen           = s2.MaxEncodedLen
	ReaderMaxBlockSize      = s2.ReaderMaxBlockSize
	ReaderAllocBlock        = s2.ReaderAllocBlock
	WriterBlockSize         = s2.WriterBlockSize
	WriterConcurrency       = s2.WriterConcurrency
	WriterBetterCompression = s2.WriterBetterCompression
	WriterBestCompression   = s2.WriterBestCompression
	WriterUncompressed      = s2.WriterUncompressed
	WriterPadding           = s2.WriterPadding
	WriterFlushOnWrite      = s2.WriterFlushOnWrite
)

var (
	ErrCorrupt     = s2.ErrCorrupt
	ErrCRC         = s2.ErrCRC
	ErrTooLarge    = s2.ErrTooLarge
	ErrUnsupported = s2.ErrUnsupported
)
