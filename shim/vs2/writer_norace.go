//go:build !race

package vs2

import (
	"io"

	"github.com/klauspost/compress/s2"
)

func NewWriter(w io.Writer, opts ...WriterOption) *Writer { return s2.NewWriter(w, opts...) }
