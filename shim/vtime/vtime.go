// Package vtime: virtual clock. Now() advances by 1 ns per call, so time is strictly increasing
// and deterministic; harnesses set the clock of a new "process" with Set.
package vtime

import (
	"time"

	"verif/shim/vchan"
	"verif/vsched"
)

var epoch = time.Date(2026, 1, 1, 0, 0, 0, 100, time.UTC)

//go:norace
func init() { vsched.OnRunStart(func() { now = epoch }) }

type Time = time.Time
type Duration = time.Duration
type Month = time.Month
type Location = time.Location

const (
	Nanosecond  = time.Nanosecond
	Microsecond = time.Microsecond
	Millisecond = time.Millisecond
	Second      = time.Second
	Minute      = time.Minute
	Hour        = time.Hour
	RFC3339     = time.RFC3339
	RFC3339Nano = time.RFC3339Nano
)

var UTC = time.UTC

var now = epoch

// Set sets the virtual clock (harness).
//
//go:norace
func Set(t time.Time) { now = t }

// Epoch returns the clock value every execution starts from.
//
//go:norace
func Epoch() time.Time { return epoch }

//go:norace
func Now() Time { now = now.Add(1); return now }

//go:norace
func Since(t Time) Duration { return now.Sub(t) }

//go:norace
func Until(t Time) Duration { return t.Sub(now) }

//go:norace
func Unix(sec, nsec int64) Time { return time.Unix(sec, nsec) }

//go:norace
func Date(y int, m Month, d, h, mi, s, ns int, loc *Location) Time {
	return time.Date(y, m, d, h, mi, s, ns, loc)
}

// Sleep advances the virtual clock and yields to the scheduler.
//
//go:norace
func Sleep(d Duration) {
	if d > 0 {
		now = now.Add(d)
	}
	if vsched.InThread() {
		vsched.Yield("time.sleep")
	}
}

// ---------------------------------------------------------------- timers
//
// Virtual timers fire only when nothing else can run (the scheduler's idle hook): the clock jumps to the
// earliest pending timer. Code that waits for "either an event or a timeout" is therefore explored with the
// event winning whenever it can happen, and with the timeout when it cannot.

type timerRec struct {
	at      time.Time
	c       *vchan.Chan[Time]
	f       func()
	stopped bool
	fired   bool
	period  Duration
}

var timers []*timerRec

//go:norace
func init() {
	vsched.OnRunStart(func() { timers = nil })
	vsched.OnIdle(fireEarliest)
}

//go:norace
func fireEarliest() bool {
	var best *timerRec
	for _, t := range timers {
		if t.stopped || t.fired {
			continue
		}
		if best == nil || t.at.Before(best.at) {
			best = t
		}
	}
	if best == nil {
		return false
	}
	if best.at.After(now) {
		now = best.at
	}
	if best.period > 0 {
		best.at = best.at.Add(best.period)
	} else {
		best.fired = true
	}
	if best.f != nil {
		best.f()
	} else if vchan.Len(best.c) == 0 {
		vchan.Send(best.c, now)
	}
	return true
}

//go:norace
func addTimer(d Duration, f func(), period Duration) *timerRec {
	t := &timerRec{at: now.Add(d), f: f, period: period}
	if f == nil {
		t.c = vchan.Make[Time](1)
	}
	timers = append(timers, t)
	return t
}

//go:norace
func After(d Duration) *vchan.Chan[Time] { return addTimer(d, nil, 0).c }

//go:norace
func Tick(d Duration) *vchan.Chan[Time] { return addTimer(d, nil, d).c }

type Timer struct {
	C *vchan.Chan[Time]
	r *timerRec
}

//go:norace
func NewTimer(d Duration) *Timer { r := addTimer(d, nil, 0); return &Timer{C: r.c, r: r} }

//go:norace
func AfterFunc(d Duration, f func()) *Timer { r := addTimer(d, f, 0); return &Timer{r: r} }

//go:norace
func (t *Timer) Stop() bool {
	active := !t.r.stopped && !t.r.fired
	t.r.stopped = true
	return active
}

//go:norace
func (t *Timer) Reset(d Duration) bool {
	active := !t.r.stopped && !t.r.fired
	t.r.stopped, t.r.fired = false, false
	t.r.at = now.Add(d)
	return active
}

type Ticker struct {
	C *vchan.Chan[Time]
	r *timerRec
}

//go:norace
func NewTicker(d Duration) *Ticker { r := addTimer(d, nil, d); return &Ticker{C: r.c, r: r} }

//go:norace
func (t *Ticker) Stop() { t.r.stopped = true }

//go:norace
func (t *Ticker) Reset(d Duration) { t.r.period = d; t.r.at = now.Add(d); t.r.stopped = false }
