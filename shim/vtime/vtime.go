// Package vtime: virtual clock. Now() advances by 1 ns per call, so time is strictly increasing
// and deterministic; harnesses set the clock of a new "process" with Set.
package vtime

import (
	"time"

	"verif/vsched"
)

var epoch = time.Date(2026, 1, 1, 0, 0, 0, 100, time.UTC)

//go:norace
func init() { vsched.OnRunStart(func() { now = epoch }) }

type Time = time.Time
type Duration = time.Duration
type Month = time.Month
type Location = time.Location

const (
	Nanosecond  = time.Nanosecond
	Microsecond = time.Microsecond
	Millisecond = time.Millisecond
	Second      = time.Second
	Minute      = time.Minute
	Hour        = time.Hour
	RFC3339     = time.RFC3339
	RFC3339Nano = time.RFC3339Nano
)

var UTC = time.UTC

var now = epoch

// Set sets the virtual clock (harness).
//
//go:norace
func Set(t time.Time) { now = t }

// Epoch returns the clock value every execution starts from.
//
//go:norace
func Epoch() time.Time { return epoch }

//go:norace
func Now() Time { now = now.Add(1); return now }

//go:norace
func Since(t Time) Duration { return now.Sub(t) }

//go:norace
func Until(t Time) Duration { return t.Sub(now) }

//go:norace
func Unix(sec, nsec int64) Time { return time.Unix(sec, nsec) }

//go:norace
func Date(y int, m Month, d, h, mi, s, ns int, loc *Location) Time {
	return time.Date(y, m, d, h, mi, s, ns, loc)
}

// Sleep advances the virtual clock and yields to the scheduler.
//
//go:norace
func Sleep(d Duration) {
	if d > 0 {
		now = now.Add(d)
	}
	if vsched.InThread() {
		vsched.Yield("time.sleep")
	}
}
