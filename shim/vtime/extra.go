package vtime

import "time"

// The rest of package time's surface: pure functions, types and constants are the real ones.

type (
	Weekday    = time.Weekday
	ParseError = time.ParseError
)

const (
	Layout     = time.Layout
	ANSIC      = time.ANSIC
	UnixDate   = time.UnixDate
	RubyDate   = time.RubyDate
	RFC822     = time.RFC822
	RFC822Z    = time.RFC822Z
	RFC850     = time.RFC850
	RFC1123    = time.RFC1123
	RFC1123Z   = time.RFC1123Z
	Kitchen    = time.Kitchen
	Stamp      = time.Stamp
	StampMilli = time.StampMilli
	StampMicro = time.StampMicro
	StampNano  = time.StampNano
	DateTime   = time.DateTime
	DateOnly   = time.DateOnly
	TimeOnly   = time.TimeOnly
	January    = time.January
	February   = time.February
	March      = time.March
	April      = time.April
	May        = time.May
	June       = time.June
	July       = time.July
	August     = time.August
	September  = time.September
	October    = time.October
	November   = time.November
	December   = time.December
	Sunday     = time.Sunday
	Monday     = time.Monday
	Tuesday    = time.Tuesday
	Wednesday  = time.Wednesday
	Thursday   = time.Thursday
	Friday     = time.Friday
	Saturday   = time.Saturday
)

var Local = time.UTC // the virtual process lives in UTC

func UnixMilli(ms int64) Time                     { return time.UnixMilli(ms) }
func UnixMicro(us int64) Time                     { return time.UnixMicro(us) }
func Parse(layout, v string) (Time, error)        { return time.Parse(layout, v) }
func ParseDuration(s string) (Duration, error)    { return time.ParseDuration(s) }
func FixedZone(name string, off int) *Location    { return time.FixedZone(name, off) }
func LoadLocation(name string) (*Location, error) { return time.LoadLocation(name) }
func ParseInLocation(l, v string, loc *Location) (Time, error) {
	return time.ParseInLocation(l, v, loc)
}
