package harness

import (
	"fmt"

	"github.com/B1NARY-GR0UP/originium"
	"github.com/B1NARY-GR0UP/originium/pkg/filter"
	"github.com/B1NARY-GR0UP/originium/types"

	"verif/shim/vos"
	"verif/vsched"
)

// c16Alphabet: all non-empty byte strings of length <= 2 over a byte alphabet with the
// separator '@', a byte below it, NUL and 0xff.
func c16Alphabet() []string {
	bs := []byte{0x00, '!', '@', 'a', 0xff}
	var ks []string
	for _, a := range bs {
		ks = append(ks, string([]byte{a}))
	}
	for _, a := range bs {
		for _, b := range bs {
			ks = append(ks, string([]byte{a, b}))
		}
	}
	return ks
}

func c16CheckSet(c *Ctx, keys []string, versions []int) (ok bool) {
	if err := guard("c16", func() error { ok = c16CheckSetRaw(c, keys, versions); return nil }); err != nil {
		oe := err.(*OracleErr)
		c.Violation(oe.Sig, fmt.Sprintf("filter for %q (versions per key %v): %s", keys, versions, oe.Detail), nil, map[string]any{"keys": keys, "versions": versions})
		return false
	}
	return ok
}

func c16CheckSetRaw(c *Ctx, keys []string, versions []int) bool {
	var es []types.Entry
	for i, k := range keys {
		for v := 1; v <= versions[i]; v++ {
			es = append(es, types.Entry{Key: types.KeyWithTs(k, uint64(v*7)), Value: []byte("v"), Version: int64(v * 7)})
		}
	}
	f := filter.Build(es)
	c.Res.Executions++
	c.Res.States++
	c.Res.Transitions += int64(len(es))
	for qi, k := range keys {
		c.Res.Evaluations++
		// lookups of other keys probe the same filter in between (a table's filter is asked about every key that is
		// looked up, members or not); their answers are not judged, the members' answers are
		for j := 0; j < 3; j++ {
			f.Contains(fmt.Sprintf("absent-%d-%d", qi, j))
		}
		// queried exactly as levelManager.searchLowerBound does: user key of key@readTs
		if !f.Contains(types.ParseKey(types.KeyWithTs(k, 99))) {
			c.Violation(fmt.Sprintf("c16/false-negative/n=%d", len(es)), fmt.Sprintf("filter built from %q (versions per key %v) denies member %q", keys, versions, k), nil,
				map[string]any{"keys": keys, "versions": versions})
			return false
		}
	}
	return true
}

func c16Units(tier string) []Unit {
	var units []Unit
	alpha := c16Alphabet()
	// (1) all key sets of size 1..3 over the alphabet, every version multiplicity 1..3 per key
	nSh := 8
	for sh := 0; sh < nSh; sh++ {
		sh := sh
		units = append(units, Unit{Name: fmt.Sprintf("keysets/shard%d", sh), Weight: 5, Run: func(c *Ctx) {
			if c.Replay != nil {
				var rc struct {
					Keys     []string `json:"keys"`
					Versions []int    `json:"versions"`
					N        int      `json:"n"`
				}
				jsonUnmarshal(c.Replay.Case, &rc)
				fmt.Printf("keys=%q versions=%v\n", rc.Keys, rc.Versions)
				if c16CheckSet(c, rc.Keys, rc.Versions) {
					fmt.Println("every member is admitted")
				}
				return
			}
			idx := 0
			n := len(alpha)
			for i := 0; i < n; i++ {
				for j := i; j < n; j++ {
					for k := j; k < n; k++ {
						idx++
						if idx%nSh != sh {
							continue
						}
						// i==j==k: one key; i<j==k: two keys; i<j<k: three keys; i==j<k repeats a two-key set
						if i == j && j < k {
							continue
						}
						set := []string{alpha[i]}
						if j != i {
							set = append(set, alpha[j])
						}
						if k != j {
							set = append(set, alpha[k])
						}
						vers := make([]int, len(set))
						var rec func(p int)
						rec = func(p int) {
							if p == len(set) {
								ok := c16CheckSet(c, set, vers)
								if ok && len(set) >= 2 {
									c.NT(fmt.Sprintf("%q%v", set, vers))
								}
								if len(set) == 3 {
									c.Sample(map[string]any{"keys": fmt.Sprintf("%q", set), "versions_per_key": append([]int(nil), vers...)})
								}
								return
							}
							for v := 1; v <= 3; v++ {
								vers[p] = v
								rec(p + 1)
							}
						}
						rec(0)
					}
				}
			}
		}})
	}
	// (2) every set size n in a sweep, deterministic key family, every member queried
	maxN := 4096
	var extra []int
	if tier == "thorough" {
		maxN = 8192
		for p := 8192; p <= 65536; p *= 2 {
			extra = append(extra, p-1, p, p+1)
		}
		extra = append(extra, 10000, 20011, 50000)
	}
	nSw := 16
	for sh := 0; sh < nSw; sh++ {
		sh := sh
		units = append(units, Unit{Name: fmt.Sprintf("sizesweep/shard%d", sh), Weight: 10, Run: func(c *Ctx) {
			check := func(n int) {
				es := make([]types.Entry, 0, n)
				for i := 0; i < n; i++ {
					// a family with shared prefixes, '@' inside and several versions of some keys
					k := fmt.Sprintf("k%d", i/2)
					if i%5 == 0 {
						k = fmt.Sprintf("k@%d", i)
					}
					es = append(es, types.Entry{Key: types.KeyWithTs(k, uint64(i%2+1)), Version: int64(i%2 + 1)})
				}
				f := filter.Build(es)
				c.Res.Executions++
				c.Res.States++
				c.Res.Transitions += int64(n)
				for i, e := range es {
					c.Res.Evaluations++
					if i%3 == 0 {
						f.Contains(fmt.Sprintf("absent-%d", i)) // interleaved lookups of non-members
					}
					if !f.Contains(types.ParseKey(e.Key)) {
						c.Violation("c16/false-negative/sweep", fmt.Sprintf("filter built from %d entries denies member %q", n, types.ParseKey(e.Key)), nil, map[string]any{"n": n})
						return
					}
				}
				c.NT(fmt.Sprintf("n=%d", n))
				if n > 1000 {
					c.Sample(map[string]any{"n_entries": n, "family": "k<i/2>@<1|2>, every fifth key k@<i>"})
				}
			}
			if c.Replay != nil {
				var rc struct {
					N int `json:"n"`
				}
				jsonUnmarshal(c.Replay.Case, &rc)
				check(rc.N)
				return
			}
			for n := 1 + sh; n <= maxN; n += nSw {
				if c.TimeUp() {
					c.Res.Exhaustive = false
					c.Cap("deadline reached inside the size sweep")
					return
				}
				check(n)
			}
			for i, n := range extra {
				if i%nSw == sh {
					check(n)
				}
			}
		}})
	}
	// (2a) version-heavy tables: few user keys with very many versions each (a filter sized for the entry count in which
	// only a few dozen bits are set), across the sizes a default memtable produces
	units = append(units, Unit{Name: "hot-keys", Weight: 6, Run: func(c *Ctx) {
		check := func(n, keys int) bool {
			es := make([]types.Entry, 0, n)
			for i := 0; i < n; i++ {
				es = append(es, types.Entry{Key: types.KeyWithTs(fmt.Sprintf("hot-%03d", i%keys), uint64(n-i/keys)), Version: int64(n - i/keys)})
			}
			f := filter.Build(es)
			c.Res.Executions++
			c.Res.States++
			c.Res.Transitions += int64(n)
			for k := 0; k < keys; k++ {
				c.Res.Evaluations++
				if !f.Contains(fmt.Sprintf("hot-%03d", k)) {
					c.Violation("c16/false-negative/hot-keys", fmt.Sprintf("filter built from %d entries (%d user keys, %d versions each) denies member %q", n, keys, n/keys, fmt.Sprintf("hot-%03d", k)), nil, map[string]any{"n": n, "hot_keys": keys})
					return false
				}
			}
			c.NT(fmt.Sprintf("hot n=%d keys=%d", n, keys))
			return true
		}
		if c.Replay != nil {
			var rc struct {
				N    int `json:"n"`
				Keys int `json:"hot_keys"`
			}
			jsonUnmarshal(c.Replay.Case, &rc)
			if check(rc.N, rc.Keys) {
				fmt.Println("every member is admitted")
			}
			return
		}
		step := 500
		if tier == "thorough" {
			step = 97
		}
		for _, keys := range []int{1, 7, 100} {
			for n := 1000; n <= 70000; n += step {
				if c.TimeUp() {
					c.Res.Exhaustive = false
					c.Cap("deadline reached inside the hot-keys sweep")
					return
				}
				if !check(n, keys) {
					return
				}
			}
		}
		c.Sample(map[string]any{"entries": fmt.Sprintf("1000..70000 step %d", step), "user_keys": "1, 7, 100", "versions_per_key": "entries / user keys"})
	}})
	// (2b) every key length: the hash path must not depend on the length of the key (scratch buffers, block-wise hashing)
	units = append(units, Unit{Name: "keylengths", Weight: 3, Run: func(c *Ctx) {
		if c.Replay != nil {
			var rc struct {
				Keys     []string `json:"keys"`
				Versions []int    `json:"versions"`
			}
			jsonUnmarshal(c.Replay.Case, &rc)
			if c16CheckSet(c, rc.Keys, rc.Versions) {
				fmt.Println("every member is admitted")
			}
			return
		}
		maxL := 600
		if tier == "thorough" {
			maxL = 5000
		}
		var lens []int
		for l := 1; l <= maxL; l++ {
			lens = append(lens, l)
		}
		lens = append(lens, 8191, 8192, 8193, 32768, 65513, 65514)
		for _, l := range lens {
			for pat := 0; pat < 2; pat++ {
				b := make([]byte, l)
				for i := range b {
					if pat == 0 {
						b[i] = 'k'
					} else {
						b[i] = byte(33 + (i*7+l)%90)
					}
				}
				k := string(b)
				// alone; with a short partner; with a partner that shares all but the last byte
				other := k[:l-1] + "~"
				for _, set := range [][]string{{k}, {"a", k}, {k, other}} {
					vers := make([]int, len(set))
					for i := range vers {
						vers[i] = 1 + (l+i)%2
					}
					if c16CheckSet(c, set, vers) && len(set) >= 2 {
						c.NT(fmt.Sprintf("len=%d pat=%d n=%d", l, pat, len(set)))
					}
				}
			}
		}
		c.Sample(map[string]any{"key_lengths": fmt.Sprintf("1..%d, 8191..8193, 32768, 65513, 65514", maxL), "patterns": 2, "sets": "alone / with a short key / with a key differing in the last byte"})
	}})
	// (3) filters rebuilt from table files by recover()
	units = append(units, Unit{Name: "recovered-filters", Weight: 1, Run: func(c *Ctx) {
		n := len(alpha)
		for i := 0; i < n; i++ {
			for j := i + 1; j < n; j += 3 {
				vos.SetFS(vos.NewFS())
				vos.MkdirAll("/d", 0o755)
				lm := originium.NewVerifLM("/d", 100, 10, 1, false)
				// one key with a live and a deleted version, one key whose only version in this table is a deletion marker,
				// one live key: every stored entry's user key is a member, deletion markers included
				set := []ver{{Key: alpha[i], Ts: 1}, {Key: alpha[i], Ts: 2, Tomb: true}, {Key: alpha[j], Ts: 3, Tomb: (i+j)%2 == 0}, {Key: "live", Ts: 4}}
				if err := lm.Flush(entriesOf(set)); err != nil {
					c.Violation("c16/flush-error", err.Error(), nil, nil)
					return
				}
				rec, _ := lm.Reopen()
				c.Res.Executions++
				c.Res.States++
				c.Res.Transitions += 2
				for _, k := range []string{alpha[i], alpha[j]} {
					c.Res.Evaluations++
					rec.FilterContains(0, "absent-"+k)
					if !rec.FilterContains(0, k) {
						c.Violation("c16/false-negative/recovered", fmt.Sprintf("filter rebuilt from the table file of %q/%q denies member %q", alpha[i], alpha[j], k), nil, nil)
						return
					}
				}
				c.NT(fmt.Sprintf("rec %q %q", alpha[i], alpha[j]))
			}
		}
	}})
	// (4) filters of tables written by compaction, with every position of the discard watermark: every stored entry's
	// user key must be admitted by the filter of the table that stores it (scheduled: the manager has an oracle)
	units = append(units, Unit{Name: "compacted-filters", Weight: 2, Run: func(c *Ctx) {
		keys := []string{"a", "a@1", "b", "z"}
		// table shapes: which (key, ts) pairs each of three flushed tables holds
		shapes := [][][]ver{
			{{{Key: "a", Ts: 1}, {Key: "z", Ts: 1}}, {{Key: "a", Ts: 3}, {Key: "b", Ts: 3}, {Key: "z", Ts: 3}}, {{Key: "a@1", Ts: 5}, {Key: "z", Ts: 5, Tomb: true}}},
			{{{Key: "a", Ts: 2}, {Key: "b", Ts: 2, Tomb: true}, {Key: "z", Ts: 2}}, {{Key: "a", Ts: 4}, {Key: "a@1", Ts: 4}, {Key: "z", Ts: 4}}, {{Key: "a", Ts: 6}, {Key: "b", Ts: 6}, {Key: "z", Ts: 6}}},
			{{{Key: "a", Ts: 1}, {Key: "a@1", Ts: 1}, {Key: "b", Ts: 1}, {Key: "z", Ts: 1}}, {{Key: "a", Ts: 2}, {Key: "z", Ts: 2}}, {{Key: "b", Ts: 9}, {Key: "z", Ts: 9}}},
		}
		_ = keys
		for si, shape := range shapes {
			for wm := uint64(0); wm <= 7; wm++ {
				for _, geo := range [][2]int{{1, 2}, {2, 2}, {1, 1}} {
					var verr error
					res := vsched.Run(vsched.Default{}, vsched.RunOpts{MaxSteps: 200000}, func() {
						vos.MkdirAll("/d", 0o755)
						lm := originium.NewVerifLM("/d", geo[0], geo[1], 4096, true)
						if wm > 0 {
							lm.SetWatermark(wm)
							vsched.WaitQuiescent()
						}
						for _, t := range shape {
							tt := append([]ver(nil), t...)
							sortVers(tt)
							if err := lm.Flush(entriesOf(tt)); err != nil {
								verr = oerr("c16/flush-error", "%v", err)
								return
							}
							lm.Compact()
							for ti, tab := range lm.Tables() {
								for _, e := range tab.Entries {
									c.Res.Evaluations++
									if !lm.FilterContains(ti, types.ParseKey(e.Key)) {
										verr = oerr("c16/false-negative/compacted", "shape %d, watermark %d, L0TargetNum=%d ratio=%d: the filter of table L%d#%d denies %q, which the table stores", si, wm, geo[0], geo[1], tab.Level, tab.Idx, e.Key)
										return
									}
								}
							}
						}
					})
					c.Res.Executions++
					c.Res.States++
					c.Res.Transitions += int64(res.Steps)
					if verr == nil {
						verr = StdCheck(res)
					}
					if verr != nil {
						oe := verr.(*OracleErr)
						c.Violation(oe.Sig, oe.Detail, nil, nil)
						return
					}
					c.NT(fmt.Sprintf("compacted %d %d %v", si, wm, geo))
				}
			}
		}
		c.Sample(map[string]any{"shapes": len(shapes), "watermarks": "0..7", "geometries": "L0TargetNum/ratio 1/2, 2/2, 1/1"})
	}})
	return units
}

func init() {
	Props["C16"] = &PropMeta{
		Units: c16Units,
		Rule: "(between the member queries the same filter is asked about non-members, as lookups of other keys do) bounded-exhaustive inputs: every set of 1-3 user keys over all byte strings of length <= 2 from {0x00,'!','@','a',0xff}, each key in 1-3 versions, built with the real filter.Build and " +
			"queried as the table lookup does; every entry count n = 1..4096 (thorough: ..8192 plus powers of two and neighbours up to 65537) with a deterministic key family, every member queried; " +
			"version-heavy tables of 1 000..70 000 entries over 1, 7 and 100 user keys; every user-key length 1..600 (thorough: ..5000) and 8191..8193, 32768, 65513, 65514 (the largest the engine accepts) in two byte patterns, alone and with partners; filters rebuilt from table files by recover(); filters of the tables that compaction writes, for three table shapes x every discard watermark 0..7 x three level geometries, every stored entry queried; a case is non-trivial when the set has >= 2 distinct keys",
		Assumptions: []string{
			"exhaustive-input checking of a deterministic function: the bound is the alphabet and the n range",
			"murmur3 is trusted",
		},
		QuickS: 45, ThoroughS: 600,
	}
}
