package harness

import (
	"fmt"
	"sort"
	"strings"

	"github.com/B1NARY-GR0UP/originium"

	"verif/vsched"
)

// ---------------------------------------------------------------- configurations

type dbCfg struct {
	Mem, Imm, Block, L0, Ratio, SL int
}

func (c dbCfg) config() originium.Config {
	return originium.Config{SkipListMaxLevel: c.SL, SkipListP: 0.5, MemtableByteThreshold: c.Mem, ImmutableBuffer: c.Imm,
		DataBlockByteThreshold: c.Block, L0TargetNum: c.L0, LevelRatio: c.Ratio}
}

func (c dbCfg) String() string {
	return fmt.Sprintf("mem=%d,imm=%d,block=%d,L0=%d,ratio=%d,sl=%d", c.Mem, c.Imm, c.Block, c.L0, c.Ratio, c.SL)
}

const memHuge = 1 << 30

// ---------------------------------------------------------------- transaction programs and histories

// txOp: G get, S set, D delete. A program ends with Commit (End "C") or Discard ("X");
// "E" = Update whose closure returns an error after its operations; "P" = Update whose closure panics after them
// (the caller recovers).
type txOp struct {
	Op string
	K  string
	V  string
}

type txProg struct {
	Update bool
	Ops    []txOp
	End    string
	// Pause: yield to the scheduler between operations (API boundaries as free yield points)
}

func (p txProg) String() string {
	var s []string
	for _, o := range p.Ops {
		switch o.Op {
		case "G":
			s = append(s, "r("+o.K+")")
		case "S":
			s = append(s, "w("+o.K+"="+o.V+")")
		case "D":
			s = append(s, "d("+o.K+")")
		case "Q":
			s = append(s, "quiesce")
		case "L":
			s = append(s, "w("+o.K+"=<oversize>)")
		}
	}
	kind := "ro"
	if p.Update {
		kind = "rw"
	}
	return fmt.Sprintf("%s[%s]%s", kind, strings.Join(s, " "), p.End)
}

// obsOp is one executed operation with what it returned.
type obsOp struct {
	Op    string
	K, V  string
	Found bool
	Err   string
}

// txnRec is the black-box record of one transaction: logical call/return times of Begin and of
// the final Commit/Discard, the operations with their results.
type txnRec struct {
	ID        int
	Name      string
	Update    bool
	BeginCall int
	BeginRet  int
	Ops       []obsOp
	End       string // C, X, E
	EndCall   int
	EndRet    int
	Err       string // result of Commit ("" = nil)
	Done      bool
	ReadTs    uint64 // diagnostics only
}

func (t *txnRec) writes() map[string]*string {
	w := map[string]*string{}
	for _, o := range t.Ops {
		if o.Err != "" {
			continue
		}
		switch o.Op {
		case "S":
			v := o.V
			w[o.K] = &v
		case "D":
			w[o.K] = nil
		}
	}
	return w
}

func (t *txnRec) committedWriter() bool {
	return t.Update && t.End == "C" && t.Err == "" && len(t.writes()) > 0 && t.Done
}

func (t *txnRec) String() string {
	var s []string
	for _, o := range t.Ops {
		switch o.Op {
		case "G":
			if o.Found {
				s = append(s, fmt.Sprintf("r(%s)=%q", o.K, o.V))
			} else {
				s = append(s, fmt.Sprintf("r(%s)=∅", o.K))
			}
		case "S":
			s = append(s, fmt.Sprintf("w(%s=%q)%s", o.K, o.V, o.Err))
		case "D":
			s = append(s, fmt.Sprintf("d(%s)%s", o.K, o.Err))
		}
	}
	end := t.End
	if t.End == "C" {
		end = "commit"
		if t.Err != "" {
			end += ":" + t.Err
		}
	}
	if !t.Done {
		end += "(unfinished)"
	}
	return fmt.Sprintf("%s{begin %d-%d %s end %d-%d %s}", t.Name, t.BeginCall, t.BeginRet, strings.Join(s, " "), t.EndCall, t.EndRet, end)
}

// history collects the records of one execution. Logical time advances at every call and return;
// only one virtual thread runs at a time, so appends are atomic.
type history struct {
	clock int
	txns  []*txnRec
}

// tick advances the logical clock. The call/return times are inputs of the history oracles (real-time order), so a
// tick is recorded as a write event on one shared object: two executions that differ only in the order of two ticks
// are different partial orders for the explorer's fingerprint pruning (found by the pruning self-test: without this,
// an execution whose real-time order made the oracle stricter could be pruned against one where it was more lenient).
//
//go:norace
func (h *history) tick() int {
	h.clock++
	vsched.Event("hist.tick", 0x715c0ffee, true)
	return h.clock
}

//go:norace
func (h *history) add(t *txnRec) { t.ID = len(h.txns); h.txns = append(h.txns, t) }

func (h *history) String() string {
	var s []string
	for _, t := range h.txns {
		s = append(s, t.String())
	}
	return strings.Join(s, "\n      ")
}

var oversizeValue = []byte(strings.Repeat("L", 70000))

// Symbolic sizes: a key written "base#100" or "base#max" in a program stands for base padded to 100 bytes / to the
// largest key the engine accepts (65 514 bytes); its values are padded to 3 000 / 65 535 bytes (the largest accepted).
// Programs, models, histories and replay files keep the short symbolic form; xKey/xVal expand at the engine's API and
// sVal checks the length of what comes back and strips the padding again.
const (
	maxKeyBytes   = 65535 - 21
	maxValueBytes = 65535
)

func sizeClass(k string) (base string, keyLen, valLen int) {
	i := strings.LastIndex(k, "#")
	if i < 0 {
		return k, 0, 0
	}
	switch k[i+1:] {
	case "100":
		return k[:i], 100, 3000
	case "max":
		return k[:i], maxKeyBytes, maxValueBytes
	}
	return k, 0, 0
}

func xKey(k string) string {
	base, kl, _ := sizeClass(k)
	if kl == 0 {
		return k
	}
	// the padding goes after the first byte: keys with the same first byte share a long prefix and differ at the end
	return base[:1] + strings.Repeat("-", kl-len(base)) + base[1:]
}

func xVal(k, v string) []byte {
	_, _, vl := sizeClass(k)
	if vl == 0 || len(v) >= vl {
		return []byte(v)
	}
	return []byte(v + strings.Repeat("~", vl-len(v)))
}

func sVal(k string, v []byte) string {
	_, _, vl := sizeClass(k)
	if vl == 0 {
		return string(v)
	}
	if len(v) != vl {
		return fmt.Sprintf("<%d bytes instead of %d>", len(v), vl)
	}
	return strings.TrimRight(string(v), "~")
}

// liveTxn is a transaction whose operations have run and whose Commit/Discard is still to come.
type liveTxn struct {
	tx   *originium.Txn
	rec  *txnRec
	p    txProg
	h    *history
	tail []txOp
}

// startTxn runs Begin and the operations of a program and records them.
// yield is called between API calls (nil: none).
func startTxn(db *originium.DB, h *history, name string, p txProg, yield func()) *liveTxn {
	rec := &txnRec{Name: name, Update: p.Update, End: p.End}
	h.add(rec)
	rec.BeginCall = h.tick()
	tx := db.Begin(p.Update)
	rec.BeginRet = h.tick()
	rec.ReadTs = tx.VerifReadTs()
	l := &liveTxn{tx: tx, rec: rec, p: p, h: h}
	for _, o := range p.Ops {
		if yield != nil {
			yield()
		}
		l.do(o)
	}
	if yield != nil {
		yield()
	}
	return l
}

// more performs further operations of an open transaction.
func (l *liveTxn) more(ops []txOp) {
	for _, o := range ops {
		l.do(o)
	}
}

// do performs one operation and records it.
func (l *liveTxn) do(o txOp) {
	tx, rec := l.tx, l.rec
	if o.Op == "Q" {
		// steering only: wait until every other goroutine is finished or blocked (writers done, flusher idle)
		vsched.WaitQuiescent()
		return
	}
	oo := obsOp{Op: o.Op, K: o.K, V: o.V}
	switch o.Op {
	case "G":
		v, ok := tx.Get(xKey(o.K))
		oo.V, oo.Found = sVal(o.K, v), ok
		if !ok {
			oo.V = ""
		}
	case "S":
		if err := tx.Set(xKey(o.K), xVal(o.K, o.V)); err != nil {
			oo.Err = err.Error()
		}
	case "L":
		// a Set that the engine must refuse (value above the 16-bit length limit): recorded as a failed Set,
		// it must have no effect at all - not on reads and not on anybody's conflict check
		oo.Op = "S"
		oo.V = "<70000 bytes>"
		if err := tx.Set(o.K, oversizeValue); err != nil {
			oo.Err = err.Error()
		} else {
			oo.V = string(oversizeValue)
		}
	case "D":
		if err := tx.Delete(xKey(o.K)); err != nil {
			oo.Err = err.Error()
		}
	}
	rec.Ops = append(rec.Ops, oo)
}

// finish runs the final Commit or Discard.
func (l *liveTxn) finish() *txnRec {
	rec := l.rec
	rec.EndCall = l.h.tick()
	switch l.p.End {
	case "C":
		if err := l.tx.Commit(); err != nil {
			rec.Err = err.Error()
		}
	default:
		l.tx.Discard()
	}
	rec.EndRet = l.h.tick()
	rec.Done = true
	return rec
}

// runTxn executes one program on db through Begin/…/Commit|Discard and records it.
func runTxn(db *originium.DB, h *history, name string, p txProg, yield func()) *txnRec {
	return startTxn(db, h, name, p, yield).finish()
}

// ---------------------------------------------------------------- the history oracle

type kvState map[string]string // absent key = not found

func (s kvState) apply(w map[string]*string) {
	for k, v := range w {
		if v == nil {
			delete(s, k)
		} else {
			s[k] = *v
		}
	}
}

func (s kvState) clone() kvState {
	c := kvState{}
	for k, v := range s {
		c[k] = v
	}
	return c
}

// readsExplained: do all Gets of t agree with snapshot st overlaid with t's own earlier writes?
func readsExplained(t *txnRec, st kvState) (bool, string) {
	own := map[string]*string{}
	for _, o := range t.Ops {
		switch o.Op {
		case "G":
			wantV, wantOK := "", false
			if ov, ok := own[o.K]; ok {
				if ov != nil {
					wantV, wantOK = *ov, true
				}
			} else if v, ok := st[o.K]; ok {
				wantV, wantOK = v, true
			}
			if wantOK != o.Found || (wantOK && wantV != o.V) {
				return false, fmt.Sprintf("r(%s) returned (%q,%v), snapshot+own writes say (%q,%v)", o.K, o.V, o.Found, wantV, wantOK)
			}
		case "S":
			if o.Err == "" {
				v := o.V
				own[o.K] = &v
			}
		case "D":
			if o.Err == "" {
				own[o.K] = nil
			}
		}
	}
	return true, ""
}

// storeReads: keys read from the store (not from the own write buffer).
func storeReads(t *txnRec) map[string]bool {
	r := map[string]bool{}
	own := map[string]bool{}
	for _, o := range t.Ops {
		switch o.Op {
		case "G":
			if !own[o.K] {
				r[o.K] = true
			}
		case "S", "D":
			if o.Err == "" {
				own[o.K] = true
			}
		}
	}
	return r
}

// permutations of the committed writers that respect real time (a before b if a's Commit returned
// before b's Commit was called).
func commitOrders(ws []*txnRec, f func(order []*txnRec) bool) bool {
	n := len(ws)
	used := make([]bool, n)
	cur := make([]*txnRec, 0, n)
	var rec func() bool
	rec = func() bool {
		if len(cur) == n {
			return f(cur)
		}
		for i := 0; i < n; i++ {
			if used[i] {
				continue
			}
			// ws[i] may come next only if no unused writer is forced before it
			ok := true
			for j := 0; j < n; j++ {
				if j != i && !used[j] && ws[j].EndRet < ws[i].EndCall {
					ok = false
					break
				}
			}
			if !ok {
				continue
			}
			used[i] = true
			cur = append(cur, ws[i])
			if rec() {
				return true
			}
			cur = cur[:len(cur)-1]
			used[i] = false
		}
		return false
	}
	return rec()
}

type histMode int

const (
	modeSnapshot histMode = iota // C05: one fixed snapshot (prefix of the commit order) + own writes
	modeConflict                 // C07: C05 + the exact conflict rule
)

// checkSnapshots decides C05 (and, with modeConflict, C07) for one history, given the state init
// that existed before the first recorded transaction. It is purely black-box.
func checkSnapshots(h *history, init kvState, mode histMode) error {
	var ws []*txnRec
	for _, t := range h.txns {
		if t.committedWriter() {
			ws = append(ws, t)
		}
	}
	if len(ws) > 7 {
		return fmt.Errorf("history oracle: too many writers (%d)", len(ws))
	}
	var firstFail string
	ok := commitOrders(ws, func(order []*txnRec) bool {
		// states after each prefix
		states := make([]kvState, len(order)+1)
		states[0] = init
		pos := map[*txnRec]int{}
		for i, w := range order {
			s := states[i].clone()
			s.apply(w.writes())
			states[i+1] = s
			pos[w] = i
		}
		for _, t := range h.txns {
			if len(t.Ops) == 0 && t.End != "C" {
				continue
			}
			// admissible snapshot prefixes [lo, hi]
			lo, hi := 0, len(order)
			for i, w := range order {
				if w == t {
					if i < hi {
						hi = i // own commit is never part of the own snapshot
					}
					continue
				}
				if w.EndRet < t.BeginCall && i+1 > lo {
					lo = i + 1
				}
				if w.EndCall > t.BeginRet && i < hi {
					hi = i
				}
			}
			found := false
			var why string
			for p := lo; p <= hi && !found; p++ {
				ok, msg := readsExplained(t, states[p])
				if !ok {
					why = msg
					continue
				}
				if mode == modeConflict && t.Update && t.End == "C" && t.Done {
					okc, msgc := conflictConsistent(t, order, pos, p)
					if !okc {
						why = msgc
						continue
					}
				}
				found = true
			}
			if lo > hi {
				why = "no admissible snapshot prefix for this commit order"
			}
			if !found {
				if firstFail == "" {
					firstFail = fmt.Sprintf("%s: %s", t.Name, why)
				}
				return false
			}
		}
		return true
	})
	if ok {
		return nil
	}
	return fmt.Errorf("%s", firstFail)
}

// conflictConsistent: with snapshot prefix p, is t's Commit result what the rule demands?
// conflict <=> some writer after the snapshot and before t's commit wrote a key t read from the store.
func conflictConsistent(t *txnRec, order []*txnRec, pos map[*txnRec]int, p int) (bool, string) {
	gotConflict := strings.Contains(t.Err, "conflict")
	if t.Err != "" && !gotConflict {
		return false, "Commit returned " + t.Err
	}
	sr := storeReads(t)
	overl := func(from, to int) bool {
		for i := from; i < to; i++ {
			for k := range order[i].writes() {
				if sr[k] {
					return true
				}
			}
		}
		return false
	}
	if len(t.writes()) == 0 {
		// read-only in effect: always commits
		if gotConflict {
			return false, "a transaction that wrote nothing was refused"
		}
		return true, ""
	}
	if !gotConflict {
		q, ok := pos[t]
		if !ok {
			return false, "committed writer missing from the commit order"
		}
		if overl(p, q) {
			return false, fmt.Sprintf("committed although a key it read from the store (%v) was overwritten after its snapshot", keysOf(sr))
		}
		return true, ""
	}
	// refused: some admissible end position q must contain an overlapping writer
	qlo, qhi := 0, len(order)
	for i, w := range order {
		if w.EndRet < t.EndCall && i+1 > qlo {
			qlo = i + 1
		}
		if w.EndCall > t.EndRet && i < qhi {
			qhi = i
		}
	}
	for q := max(qlo, p); q <= qhi; q++ {
		if overl(p, q) {
			return true, ""
		}
	}
	return false, fmt.Sprintf("refused with a conflict although no key it read from the store (%v) was written after its snapshot", keysOf(sr))
}

func keysOf(m map[string]bool) []string {
	var r []string
	for k := range m {
		r = append(r, k)
	}
	sort.Strings(r)
	return r
}

// checkSerializable decides C06 by brute force: the committed writers plus all transactions that
// only read (read-only, or update transactions that wrote nothing and were not refused) must have
// a serial order that respects real time (a before b if a finished before b began) in which
// every Get returns what the preceding transactions wrote.
func checkSerializable(h *history, init kvState) (error, []*txnRec) {
	var ts []*txnRec
	for _, t := range h.txns {
		if !t.Done {
			continue
		}
		switch {
		case t.committedWriter():
			ts = append(ts, t)
		case len(t.writes()) == 0 && (t.End != "C" || t.Err == ""):
			ts = append(ts, t)
		}
	}
	n := len(ts)
	if n > 9 {
		return fmt.Errorf("history oracle: too many transactions (%d)", n), nil
	}
	used := make([]bool, n)
	var witness []*txnRec
	var deepest int
	var deepMsg string
	var rec func(st kvState, depth int) bool
	rec = func(st kvState, depth int) bool {
		if depth == n {
			return true
		}
		for i := 0; i < n; i++ {
			if used[i] {
				continue
			}
			ok := true
			for j := 0; j < n; j++ {
				if j != i && !used[j] && ts[j].EndRet < ts[i].BeginCall {
					ok = false
					break
				}
			}
			if !ok {
				continue
			}
			good, msg := readsExplained(ts[i], st)
			if !good {
				if depth >= deepest {
					deepest, deepMsg = depth, ts[i].Name+": "+msg
				}
				continue
			}
			used[i] = true
			ns := st
			if w := ts[i].writes(); len(w) > 0 && ts[i].committedWriter() {
				ns = st.clone()
				ns.apply(w)
			}
			witness = append(witness, ts[i])
			if rec(ns, depth+1) {
				return true
			}
			witness = witness[:len(witness)-1]
			used[i] = false
		}
		return false
	}
	if rec(init, 0) {
		return nil, witness
	}
	return fmt.Errorf("no serial order explains the reads (deepest attempt placed %d of %d transactions; then %s)", deepest, n, deepMsg), nil
}
