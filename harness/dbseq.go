package harness

import (
	"fmt"
	"strings"
	"time"

	"github.com/B1NARY-GR0UP/originium"

	"verif/shim/vtime"
	"verif/vsched"
)

// seqStep is one step of a sequential history driven through one goroutine:
//
//	T   a transaction program (committed, discarded, or failing Update closure)
//	R   Close + Open with configuration Cfg and process-start clock class Clock
//	CF  a conflict-refused commit: T1 reads K, T2 overwrites K and commits, T1 writes and commits
//	M   a misuse call (Name) that must return the documented error and change nothing
type seqStep struct {
	Kind  string
	Prog  txProg
	Cfg   int
	Clock int
	K     string
	Name  string
}

func (s seqStep) String() string {
	switch s.Kind {
	case "T":
		return s.Prog.String()
	case "R":
		return fmt.Sprintf("reopen(cfg%d,clock%d)", s.Cfg, s.Clock)
	case "CF":
		return "refused(" + s.K + ")"
	case "M":
		return "misuse(" + s.Name + ")"
	}
	return s.Kind
}

func stepsString(ss []seqStep) string {
	var p []string
	for _, s := range ss {
		p = append(p, s.String())
	}
	return strings.Join(p, " ; ")
}

// seqObs is what one execution of a sequence reports to the unit.
type seqObs struct {
	reads     int
	offMem    int // reads of a written key whose newest version was not in the active memtable
	reopens   int
	maxTables int
	levels    int
	err       error
}

func (o *seqObs) String() string {
	return fmt.Sprintf("reads=%d off-memtable=%d reopens=%d tables<=%d levels=%d", o.reads, o.offMem, o.reopens, o.maxTables, o.levels)
}

var seqKeys = []string{"k", "k!", "k@1"}

const seqNeverKey = "k0"

// nextClock sets the virtual clock for a new "process": one of the three order classes of the
// wal-name comparison relative to the names the previous process created.
func nextClock(class int) {
	now := vtime.Now()
	switch class {
	case 1: // same second, nanoseconds with one more digit
		ns := now.Nanosecond()
		d := 10
		for d <= ns {
			d *= 10
		}
		vtime.Set(now.Truncate(time.Second).Add(time.Duration(d + 1))) // e.g. 1001 after 110: smaller as a string, larger as a number
	case 2: // next second, fewer digits
		vtime.Set(now.Truncate(time.Second).Add(time.Second + 5))
	default: // continue (+1 ns)
	}
}

// dbSeqScenario runs steps through one user goroutine against a real DB with its three
// background goroutines; after every step a fresh View reads every key and compares it with
// the map model. eager: the background work is drained after every step (steers, never judges).
func dbSeqScenario(prop string, cfgs []dbCfg, steps []seqStep, eager bool, obs *seqObs) vsched.Scenario {
	return func() (func(), func(*vsched.Exec), func(vsched.Result) error) {
		*obs = seqObs{}
		fail := func(sig, f string, a ...any) {
			if obs.err == nil {
				obs.err = oerr(prop+"/"+sig, "after [%s]: %s", stepsString(steps), fmt.Sprintf(f, a...))
			}
		}
		main := func() {
			model := kvState{}
			written := map[string]bool{}
			h := &history{}
			vsched.Freeze()
			db, err := originium.Open("/d", cfgs[0].config())
			vsched.Thaw()
			if err != nil {
				fail("open-error", "%v", err)
				return
			}
			nval := 0
			// every key of the standard universe, every key the steps mention, and one that is never written
			readKeys := append([]string{}, seqKeys...)
			for _, st := range steps {
				for _, o := range st.Prog.Ops {
					if o.K != "" && !hasStr(readKeys, o.K) {
						readKeys = append(readKeys, o.K)
					}
				}
			}
			readKeys = append(readKeys, seqNeverKey)
			readAll := func(stage string) bool {
				bad := false
				err := db.View(func(tx *originium.Txn) error {
					for _, k := range readKeys {
						vb, ok := tx.Get(xKey(k))
						v := sVal(k, vb)
						if !ok {
							v = ""
						}
						obs.reads++
						want, wok := model[k]
						if written[k] && !db.VerifInMemtable(xKey(k)) {
							obs.offMem++
						}
						if ok != wok || (ok && v != want) {
							kind := "stale-or-wrong"
							switch {
							case wok && !ok:
								kind = "lost"
							case !wok && ok:
								kind = "resurrected"
							}
							imm, tabs := db.VerifShape()
							fail(kind+"/"+stage, "Get(%q) = (%q,%v), model says (%q,%v) [queued memtables %d, tables per level %v]", k, v, ok, want, wok, imm, tabs)
							bad = true
							return nil
						}
					}
					return nil
				})
				if err != nil {
					fail("view-error", "%v", err)
					return false
				}
				imm, tabs := db.VerifShape()
				_ = imm
				n := 0
				for _, t := range tabs {
					n += t
				}
				obs.maxTables = max(obs.maxTables, n)
				obs.levels = max(obs.levels, len(tabs))
				return !bad
			}
			for si, st := range steps {
				stage := "step"
				switch st.Kind {
				case "T":
					p := st.Prog
					p.Ops = append([]txOp(nil), p.Ops...)
					for i := range p.Ops {
						if p.Ops[i].Op == "S" {
							nval++
							p.Ops[i].V = fmt.Sprintf("v%d", nval)
							if nval%4 == 3 {
								p.Ops[i].V = "" // empty values are values
							}
						}
					}
					if p.End == "P" {
						// Update whose closure panics after its writes; the caller recovers (a request handler, a worker
						// pool): the transaction failed and must leave no trace
						func() {
							defer func() { _ = recover() }()
							db.Update(func(tx *originium.Txn) error {
								for _, o := range p.Ops {
									switch o.Op {
									case "S":
										tx.Set(xKey(o.K), xVal(o.K, o.V))
									case "D":
										tx.Delete(xKey(o.K))
									case "G":
										tx.Get(xKey(o.K))
									}
								}
								panic("the Update closure panicked")
							})
							// an Update that turns the panic into an error (or swallows it) is not judged here: the
							// property is about the writes, which the reads after this step compare with the model
						}()
						break
					}
					if p.End == "E" {
						// Update whose closure fails after its writes
						e := fmt.Errorf("closure failed")
						got := db.Update(func(tx *originium.Txn) error {
							for _, o := range p.Ops {
								switch o.Op {
								case "S":
									tx.Set(xKey(o.K), xVal(o.K, o.V))
								case "D":
									tx.Delete(xKey(o.K))
								case "G":
									tx.Get(xKey(o.K))
								}
							}
							return e
						})
						if got != e {
							fail("update-error-lost", "Update returned %v instead of the closure's error", got)
							return
						}
						break
					}
					rec := runTxn(db, h, fmt.Sprintf("t%d", si), p, nil)
					for _, o := range rec.Ops {
						if o.Err != "" {
							fail("unexpected-error", "%s returned %s", o.Op, o.Err)
							return
						}
					}
					if p.End == "C" {
						if rec.Err != "" {
							fail("unexpected-commit-error", "a transaction without concurrency returned %s", rec.Err)
							return
						}
						if p.Update {
							model.apply(rec.writes())
							for k := range rec.writes() {
								written[k] = true
							}
						}
					}
				case "CF":
					k2 := seqKeys[(indexOf(seqKeys, st.K)+1)%len(seqKeys)]
					t1 := db.Begin(true)
					t1.Get(st.K)
					nval++
					v2 := fmt.Sprintf("v%d", nval)
					if err := db.Update(func(tx *originium.Txn) error { return tx.Set(st.K, []byte(v2)) }); err != nil {
						fail("unexpected-commit-error", "%v", err)
						return
					}
					model[st.K] = v2
					written[st.K] = true
					nval++
					t1.Set(k2, []byte(fmt.Sprintf("v%d", nval)))
					t1.Delete(st.K)
					if err := t1.Commit(); err != originium.ErrConflictTxn {
						fail("conflict-not-reported", "Commit of a transaction whose read key %q was overwritten returned %v", st.K, err)
						return
					}
					stage = "after-refused-commit"
				case "M":
					if !misuse(db, st.Name, fail) {
						return
					}
					stage = "after-misuse"
				case "R":
					db.Close()
					if st.Name == "use-after-close" {
						if err := db.View(func(*originium.Txn) error { return nil }); err != originium.ErrDBClosed {
							fail("misuse/view-after-close", "View after Close returned %v", err)
							return
						}
						if err := db.Update(func(tx *originium.Txn) error { return tx.Set("k", []byte("zombie")) }); err != originium.ErrDBClosed {
							fail("misuse/update-after-close", "Update after Close returned %v", err)
							return
						}
					}
					nextClock(st.Clock)
					var err error
					db, err = originium.Open("/d", cfgs[st.Cfg%len(cfgs)].config())
					if err != nil {
						fail("open-error", "%v", err)
						return
					}
					obs.reopens++
					stage = "after-reopen"
				}
				if eager {
					vsched.WaitQuiescent()
				}
				if !readAll(stage) {
					return
				}
			}
			db.Close()
		}
		check := func(res vsched.Result) error {
			if obs.err != nil {
				return obs.err
			}
			if err := StdCheck(res); err != nil {
				oe := err.(*OracleErr)
				return oerr(prop+"/"+oe.Sig, "during [%s]: %s", stepsString(steps), oe.Detail)
			}
			return nil
		}
		return main, nil, check
	}
}

func hasStr(s []string, x string) bool {
	for _, v := range s {
		if v == x {
			return true
		}
	}
	return false
}

func indexOf(s []string, x string) int {
	for i, v := range s {
		if v == x {
			return i
		}
	}
	return 0
}

// misuse performs one misuse call and checks the documented error.
func misuse(db *originium.DB, name string, fail func(string, string, ...any)) bool {
	switch name {
	case "set-in-readonly":
		tx := db.Begin(false)
		if err := tx.Set("k", []byte("bad")); err != originium.ErrReadOnlyTxn {
			fail("misuse/set-in-readonly", "Set in a read-only transaction returned %v", err)
			return false
		}
		if err := tx.Delete("k!"); err != originium.ErrReadOnlyTxn {
			fail("misuse/delete-in-readonly", "Delete in a read-only transaction returned %v", err)
			return false
		}
		if err := tx.Commit(); err != nil {
			fail("misuse/commit-readonly", "Commit of a read-only transaction returned %v", err)
			return false
		}
	case "use-after-commit":
		tx := db.Begin(true)
		tx.Set("k@1", []byte("pending"))
		tx.Discard()
		if err := tx.Set("k", []byte("bad")); err != originium.ErrDiscardedTxn {
			fail("misuse/set-after-discard", "Set on a finished transaction returned %v", err)
			return false
		}
		if err := tx.Commit(); err != originium.ErrDiscardedTxn {
			fail("misuse/commit-after-discard", "Commit on a finished transaction returned %v", err)
			return false
		}
		if v, ok := tx.Get("k"); ok {
			fail("misuse/get-after-discard", "Get on a finished transaction returned %q", v)
			return false
		}
		tx.Discard()
		// the same with an EMPTY write buffer: an update transaction that only read, one whose only write was
		// refused, and a read-only transaction - Commit on the finished handle is misuse all the same
		for _, kind := range []string{"update-read-only-use", "update-refused-write", "read-only"} {
			t2 := db.Begin(kind != "read-only")
			switch kind {
			case "update-read-only-use":
				t2.Get("k")
			case "update-refused-write":
				t2.Set("", []byte("x"))
			}
			t2.Discard()
			if err := t2.Commit(); err != originium.ErrDiscardedTxn {
				fail("misuse/commit-after-discard", "Commit on a discarded transaction without buffered writes (%s) returned %v", kind, err)
				return false
			}
			t3 := db.Begin(kind != "read-only")
			if kind == "update-read-only-use" {
				t3.Get("k")
			}
			if err := t3.Commit(); err != nil {
				fail("misuse/setup", "Commit of a transaction without writes (%s) returned %v", kind, err)
				return false
			}
			if err := t3.Commit(); err != originium.ErrDiscardedTxn {
				fail("misuse/commit-after-commit", "second Commit on a transaction without buffered writes (%s) returned %v", kind, err)
				return false
			}
		}
		// Update whose closure finishes its own write-less transaction and returns nil: Update's Commit is a use of
		// a finished transaction
		if err := db.Update(func(t *originium.Txn) error { t.Discard(); return nil }); err != originium.ErrDiscardedTxn {
			fail("misuse/commit-after-discard", "Update whose closure discarded its (write-less) transaction returned %v", err)
			return false
		}
	case "use-after-successful-commit":
		// a transaction that committed successfully is finished as well: nothing written through the stale
		// handle may ever become visible (the model is not updated for these calls)
		tx := db.Begin(true)
		if err := tx.Delete(seqNeverKey); err != nil {
			fail("misuse/setup", "Delete returned %v", err)
			return false
		}
		if err := tx.Commit(); err != nil {
			fail("unexpected-commit-error", "%v", err)
			return false
		}
		if err := tx.Set("k!", []byte("ghost")); err != originium.ErrDiscardedTxn {
			fail("misuse/set-after-commit", "Set on a committed transaction returned %v", err)
			return false
		}
		if err := tx.Delete("k"); err != originium.ErrDiscardedTxn {
			fail("misuse/delete-after-commit", "Delete on a committed transaction returned %v", err)
			return false
		}
		if err := tx.Commit(); err != originium.ErrDiscardedTxn {
			fail("misuse/commit-after-commit", "second Commit on a committed transaction returned %v", err)
			return false
		}
		if v, ok := tx.Get("k"); ok {
			fail("misuse/get-after-commit", "Get on a committed transaction returned %q", v)
			return false
		}
		// the same on the very key the finished transaction wrote, with a value of the same length and a shorter one:
		// the refused call must not reach the bytes the commit handed to the engine (checked by value, on a key of
		// its own that the model does not track)
		t4 := db.Begin(true)
		t4.Set("misuse-key", []byte("first-value"))
		t4.Set("misuse-key", []byte("committed-value"))
		if err := t4.Commit(); err != nil {
			fail("unexpected-commit-error", "%v", err)
			return false
		}
		for _, ghost := range []string{"GHOSTGHOSTGHOST", "GHOST", ""} {
			if err := t4.Set("misuse-key", []byte(ghost)); err != originium.ErrDiscardedTxn {
				fail("misuse/set-after-commit", "Set on a committed transaction returned %v", err)
				return false
			}
			var got string
			var found bool
			db.View(func(t *originium.Txn) error { v, ok := t.Get("misuse-key"); got, found = string(v), ok; return nil })
			if !found || got != "committed-value" {
				fail("misuse/set-after-commit-visible", "after a refused Set(%q) through the handle of a committed transaction its key reads (%q,%v), committed was %q", ghost, got, found, "committed-value")
				return false
			}
		}
		// a handle leaked out of an Update closure that returned nil
		var leaked *originium.Txn
		if err := db.Update(func(t *originium.Txn) error { leaked = t; return t.Delete(seqNeverKey) }); err != nil {
			fail("unexpected-commit-error", "%v", err)
			return false
		}
		if err := leaked.Set("k@1", []byte("ghost2")); err != originium.ErrDiscardedTxn {
			fail("misuse/set-after-update", "Set through a handle leaked from a finished Update returned %v", err)
			return false
		}
		if err := leaked.Commit(); err != originium.ErrDiscardedTxn {
			fail("misuse/commit-after-update", "Commit through a handle leaked from a finished Update returned %v", err)
			return false
		}
	case "empty-key":
		tx := db.Begin(true)
		if err := tx.Set("", []byte("bad")); err != originium.ErrEmptyKey {
			fail("misuse/empty-key", "Set with an empty key returned %v", err)
			return false
		}
		if err := tx.Delete(""); err != originium.ErrEmptyKey {
			fail("misuse/empty-key", "Delete with an empty key returned %v", err)
			return false
		}
		if _, ok := tx.Get(""); ok {
			fail("misuse/empty-key", "Get with an empty key found something")
			return false
		}
		if err := tx.Commit(); err != nil {
			fail("misuse/empty-key", "Commit after refused writes returned %v", err)
			return false
		}
	}
	return true
}

// exploreSeq explores one sequence under both background policies with the given budgets.
func exploreSeq(c *Ctx, prop string, cfgs []dbCfg, steps []seqStep, budgets []int, eagerToo bool) {
	var obs seqObs
	pol := []bool{false}
	if eagerToo {
		pol = []bool{false, true}
	}
	for _, eager := range pol {
		nv := len(c.Res.Violations)
		ExploreSched(c, dbSeqScenario(prop, cfgs, steps, eager, &obs), SchedOpts{Delay: true, Budgets: budgets, MaxEnv: 1, EnvKinds: dbEnvKinds, MaxSteps: 200000,
			Outcome: func() string {
				return fmt.Sprintf("off-memtable-reads>0:%v tables:%d levels:%d reopens:%d", obs.offMem > 0, min(obs.maxTables, 3), obs.levels, obs.reopens)
			},
			NT: func() string {
				if obs.offMem == 0 {
					return ""
				}
				return fmt.Sprintf("%v|%v|%s|%v", cfgs, eager, stepsString(steps), obs.String())
			},
			Sample: func() any {
				return map[string]any{"config": fmt.Sprint(cfgs), "eager_background": eager, "steps": stepsString(steps), "observed": obs.String()}
			}})
		for k := nv; k < len(c.Res.Violations); k++ {
			c.Res.Violations[k].Case = jsonMarshal(map[string]any{"cfgs": cfgs, "steps": steps, "eager": eager})
		}
	}
}

// replaySeq replays a recorded sequence case.
func replaySeq(c *Ctx, prop string) {
	var rc struct {
		Cfgs  []dbCfg   `json:"cfgs"`
		Steps []seqStep `json:"steps"`
		Eager bool      `json:"eager"`
	}
	jsonUnmarshal(c.Replay.Case, &rc)
	fmt.Printf("configs=%v eager=%v\nsteps: %s\n", rc.Cfgs, rc.Eager, stepsString(rc.Steps))
	var obs seqObs
	ExploreSched(c, dbSeqScenario(prop, rc.Cfgs, rc.Steps, rc.Eager, &obs), SchedOpts{Delay: true, MaxSteps: 200000})
}
