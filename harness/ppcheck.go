package harness

import (
	"sort"
	"strings"

	"github.com/anishathalye/porcupine"
)

func stateKey(s kvState) string {
	var ks []string
	for k := range s {
		ks = append(ks, k)
	}
	sort.Strings(ks)
	var b strings.Builder
	for _, k := range ks {
		b.WriteString(k)
		b.WriteByte('=')
		b.WriteString(s[k])
		b.WriteByte(';')
	}
	return b.String()
}

func parseState(s string) kvState {
	st := kvState{}
	for _, p := range strings.Split(s, ";") {
		if i := strings.IndexByte(p, '='); i >= 0 {
			st[p[:i]] = p[i+1:]
		}
	}
	return st
}

// porcupineSerializable checks the same question as checkSerializable with porcupine: every
// transaction is one operation (call = Begin called, return = Commit/Discard returned) on a
// key-value map; linearizability of that history is strict serializability.
func porcupineSerializable(h *history, init kvState) bool {
	model := porcupine.Model{
		Init: func() interface{} { return stateKey(init) },
		Step: func(state, input, output interface{}) (bool, interface{}) {
			t := input.(*txnRec)
			st := parseState(state.(string))
			ok, _ := readsExplained(t, st)
			if !ok {
				return false, state
			}
			if t.committedWriter() {
				st.apply(t.writes())
				return true, stateKey(st)
			}
			return true, state
		},
		Equal: func(a, b interface{}) bool { return a.(string) == b.(string) },
	}
	var ops []porcupine.Operation
	for _, t := range h.txns {
		if !t.Done {
			continue
		}
		if t.committedWriter() || (len(t.writes()) == 0 && (t.End != "C" || t.Err == "")) {
			ops = append(ops, porcupine.Operation{ClientId: t.ID, Input: t, Call: int64(t.BeginCall), Output: nil, Return: int64(t.EndRet)})
		}
	}
	return porcupine.CheckOperations(model, ops)
}
