package harness

import "fmt"

func c15Scenarios() []txnScen {
	init := []txProg{rw("C", "wx", "wy")}
	w := func(k string) txProg { return rw("C", "r"+k, "w"+k) }
	return []txnScen{
		{Name: "L1-two-writers-and-reader", Init: init, Threads: [][]txProg{{w("x")}, {w("y")}, {ro("rx", "ry")}}},
		{Name: "L2-writers-fill-the-queue", Init: init, Threads: [][]txProg{{rw("C", "wx"), rw("C", "wx"), rw("C", "wx")}, {rw("C", "wy"), rw("C", "wy"), rw("C", "wy")}}},
		{Name: "L3-readers-begin-during-commit", Init: init, Threads: [][]txProg{{rw("C", "wx", "wy")}, {ro("rx")}, {ro("ry")}, {ro("rx", "ry")}}},
		{Name: "L4-close-with-pending-flushes", Init: init, Threads: [][]txProg{{rw("C", "wx"), rw("C", "wy"), rw("C", "wx", "wy")}}},
	}
}

func c15Units(tier string) []Unit {
	var units []Unit
	type plan struct {
		cfg     dbCfg
		name    string
		budgets []int
		shards  int
	}
	cfgQ2 := dbCfg{Mem: 1, Imm: 2, Block: 30, L0: 2, Ratio: 2, SL: 1}
	var plans []plan
	if tier == "quick" {
		plans = []plan{{cfgTxnUnbuf, "unbuffered", []int{0, 1}, 1}, {cfgTxnMem, "mem-only", []int{0, 1, 2}, 1}, {cfgTxnRotate, "queue=1", []int{0, 1}, 1}, {cfgQ2, "queue=2", []int{0, 1}, 1}}
	} else {
		plans = []plan{{cfgTxnUnbuf, "unbuffered", []int{0, 1, 2, 3}, 8}, {cfgTxnRotate, "queue=1", []int{0, 1, 2, 3}, 8}, {cfgQ2, "queue=2", []int{0, 1, 2}, 4}, {cfgTxnMem, "mem-only", []int{0, 1, 2, 3}, 2}}
	}
	scs := append(c15Scenarios(), txnScenarios()[:2]...)
	for _, sc := range scs {
		for _, pl := range plans {
			for sh := 0; sh < pl.shards; sh++ {
				sc, pl, sh := sc, pl, sh
				sc.Cfg = pl.cfg
				sc.Keys = txnKeys
				name := fmt.Sprintf("sched/%s/%s/budgets=%v", sc.Name, pl.name, pl.budgets)
				if pl.shards > 1 {
					name += fmt.Sprintf("/shard%d of %d", sh, pl.shards)
				}
				units = append(units, Unit{Name: name, Weight: 10 * pl.budgets[len(pl.budgets)-1], Run: func(c *Ctx) {
					exploreTxn(c, sc, pl.budgets, pl.shards, sh, oracleC15)
				}})
			}
		}
	}
	return units
}

func c12Units(tier string) []Unit {
	var units []Unit
	budgets := []int{0, 1}
	shards := 2
	if tier == "thorough" {
		budgets = []int{0, 1, 2}
		shards = 8
	}
	scs := append(txnScenarios(), c15Scenarios()[:2]...)
	cfgs := []struct {
		n string
		c dbCfg
	}{{"rotate-always", cfgTxnRotate}, {"unbuffered", cfgTxnUnbuf}}
	for si, sc := range scs {
		for ci, cf := range cfgs {
			if tier == "quick" && ci == 1 && si%3 != 0 {
				continue
			}
			for sh := 0; sh < shards; sh++ {
				sc, cf, sh := sc, cf, sh
				sc.Cfg = cf.c
				sc.Keys = txnKeys
				sc.FSPoints = true
				units = append(units, Unit{Name: fmt.Sprintf("race/%s/%s/budgets=%v/shard%d of %d", sc.Name, cf.n, budgets, sh, shards), Weight: 10, Run: func(c *Ctx) {
					exploreTxn(c, sc, budgets, shards, sh, oracleC05, oracleC06, oracleC07)
				}})
			}
		}
	}
	return units
}

func init() {
	Props["C15"] = &PropMeta{
		Units: c15Units,
		Rule: "every schedule within the deviation bound of writer/reader/Close scenarios with flush-queue length 0, 1 and 2 and rotation on every commit (two writers and a reader; writers that fill the queue faster than it drains; " +
			"readers beginning while a commit is in progress; Close with pending flushes followed by an immediate Open); deadlock = a user goroutine unfinished while no goroutine can step; oracle: every call returns, Close returns, " +
			"no file-system mutation after Close returned, the reopened store reads exactly what the last transaction read; non-trivial: executions with overlapping transactions, distinct by observed values",
		Assumptions: append([]string{"'returns within bounded time' is decided as 'every maximal execution completes' (the code has no spin loops; all waiting is blocking on modelled objects)",
			"Close is invoked when no other call is in flight, with background work pending"}, txnAssumptions...),
		QuickS: 100, ThoroughS: 1800,
	}
	Props["C12"] = &PropMeta{
		Units: c12Units,
		Rule: "the transaction scenarios of C05-C07/C15 explored in a -race build under the controlled scheduler: scheduler hand-offs are invisible to the race detector (RaceDisable) and every modelled primitive emits exactly " +
			"the happens-before edges of its real counterpart (RaceAcquire/RaceRelease), so the detector's vector clocks flag every pair of accesses left unordered by an explored schedule; oracle per execution: no race report, " +
			"no panic, results admitted by the C05-C07 oracles; non-trivial: executions with overlapping transactions",
		Assumptions: append([]string{"the race detector (TSan) is the per-execution monitor; channel edges are per channel (may hide, never invent, a race)",
			"no partial-order pruning in this tier"}, txnAssumptions...),
		QuickS: 150, ThoroughS: 2400,
	}
}
