package harness

import (
	"fmt"
	"sort"
	"strings"

	"verif/shim/vchan"
	"verif/shim/vsync"
	"verif/vsched"
)

// Self-test of the channel / mutex shims: small programs are explored exhaustively (unbounded preemptions)
// under the shims and the SET of outcomes is compared with the set the Go language specification allows.

type syncProg struct {
	name string
	want []string
	body func(out func(string)) // runs as the main virtual thread; may spawn more
}

func syncPrograms() []syncProg {
	return []syncProg{
		{"unbuffered rendezvous", []string{"got 1"}, func(out func(string)) {
			c := vchan.Make[int](0)
			vsched.GoUser("s", func() { vchan.Send(c, 1) })
			out(fmt.Sprint("got ", vchan.Recv(c)))
		}},
		{"buffered(1), two senders: receiver sees either first, then the other", []string{"1,2", "2,1"}, func(out func(string)) {
			c := vchan.Make[int](1)
			vsched.GoUser("s1", func() { vchan.Send(c, 1) })
			vsched.GoUser("s2", func() { vchan.Send(c, 2) })
			a := vchan.Recv(c)
			b := vchan.Recv(c)
			out(fmt.Sprintf("%d,%d", a, b))
		}},
		{"buffered FIFO order of one sender", []string{"1,2,3"}, func(out func(string)) {
			c := vchan.Make[int](3)
			vsched.GoUser("s", func() { vchan.Send(c, 1); vchan.Send(c, 2); vchan.Send(c, 3) })
			out(fmt.Sprintf("%d,%d,%d", vchan.Recv(c), vchan.Recv(c), vchan.Recv(c)))
		}},
		{"close: buffered values first, then zero value with ok=false", []string{"7 true,0 false"}, func(out func(string)) {
			c := vchan.Make[int](1)
			vchan.Send(c, 7)
			vchan.Close(c)
			a, ok1 := vchan.Recv2(c)
			b, ok2 := vchan.Recv2(c)
			out(fmt.Sprintf("%d %v,%d %v", a, ok1, b, ok2))
		}},
		{"select with two ready cases chooses either", []string{"a", "b"}, func(out func(string)) {
			a, b := vchan.Make[int](1), vchan.Make[int](1)
			vchan.Send(a, 1)
			vchan.Send(b, 2)
			ca, cb := vchan.RecvCase(a), vchan.RecvCase(b)
			switch vchan.Select(false, ca, cb) {
			case 0:
				out("a")
			case 1:
				out("b")
			}
		}},
		{"select with default: default iff nothing ready at that moment", []string{"default", "got"}, func(out func(string)) {
			c := vchan.Make[int](1)
			vsched.GoUser("s", func() { vchan.Send(c, 1) })
			cc := vchan.RecvCase(c)
			if vchan.Select(true, cc) == 0 {
				out("got")
			} else {
				out("default")
			}
		}},
		{"send on a full buffered channel blocks until a receive", []string{"recv-then-sent"}, func(out func(string)) {
			c := vchan.Make[int](1)
			vchan.Send(c, 1)
			var log []string
			var wg vsync.WaitGroup
			wg.Add(1)
			vsched.GoUser("s", func() { vchan.Send(c, 2); log = append(log, "sent"); wg.Done() })
			vsched.Yield("give the sender a chance")
			log = append(log, "recv")
			vchan.Recv(c)
			wg.Wait()
			out(strings.Join(log, "-then-"))
		}},
		{"mutex: increments are not lost", []string{"2"}, func(out func(string)) {
			var mu vsync.Mutex
			var wg vsync.WaitGroup
			n := 0
			for i := 0; i < 2; i++ {
				wg.Add(1)
				vsched.GoUser(fmt.Sprint("t", i), func() {
					mu.Lock()
					v := n
					vsched.Yield("inside")
					n = v + 1
					mu.Unlock()
					wg.Done()
				})
			}
			wg.Wait()
			out(fmt.Sprint(n))
		}},
		{"without the mutex the increment CAN be lost (the explorer finds it)", []string{"1", "2"}, func(out func(string)) {
			var wg vsync.WaitGroup
			n := 0
			for i := 0; i < 2; i++ {
				wg.Add(1)
				vsched.GoUser(fmt.Sprint("t", i), func() { v := n; vsched.Yield("between read and write"); n = v + 1; wg.Done() })
			}
			wg.Wait()
			out(fmt.Sprint(n))
		}},
		{"rwmutex: a reader that arrives after a waiting writer does not overtake it", []string{"r1 w r2", "r1 r2 w", "w r1 r2", "r2 r1 w", "r2 w r1", "w r2 r1"}, func(out func(string)) {
			// all orders in which the three critical sections can be ENTERED are allowed by sync.RWMutex except that a reader
			// arriving while a writer is already waiting for another reader must wait for that writer; with three independent
			// goroutines every permutation has a schedule in which nobody was waiting yet
			var mu vsync.RWMutex
			var wg vsync.WaitGroup
			var order []string
			wg.Add(3)
			vsched.GoUser("r1", func() { mu.RLock(); order = append(order, "r1"); mu.RUnlock(); wg.Done() })
			vsched.GoUser("w", func() { mu.Lock(); order = append(order, "w"); mu.Unlock(); wg.Done() })
			vsched.GoUser("r2", func() { mu.RLock(); order = append(order, "r2"); mu.RUnlock(); wg.Done() })
			wg.Wait()
			out(strings.Join(order, " "))
		}},
		{"rwmutex writer preference: reader inside, writer waiting, new reader must wait", []string{"w before r2"}, func(out func(string)) {
			var mu vsync.RWMutex
			var wg vsync.WaitGroup
			var order []string
			mu.RLock() // main is the reader inside
			wg.Add(2)
			announced := vchan.Make[int](0)
			vsched.GoUser("w", func() {
				vchan.Send(announced, 1)
				mu.Lock()
				order = append(order, "w")
				mu.Unlock()
				wg.Done()
			})
			vchan.Recv(announced)
			vsched.WaitQuiescent() // the writer is now blocked in Lock (announced to the lock)
			vsched.GoUser("r2", func() { mu.RLock(); order = append(order, "r2"); mu.RUnlock(); wg.Done() })
			vsched.WaitQuiescent() // r2 is blocked behind the waiting writer
			mu.RUnlock()
			wg.Wait()
			out(order[0] + " before " + order[1])
		}},
		{"waitgroup: Wait returns only after every Done", []string{"3"}, func(out func(string)) {
			var wg vsync.WaitGroup
			n := 0
			for i := 0; i < 3; i++ {
				wg.Add(1)
				vsched.GoUser(fmt.Sprint("t", i), func() { n++; wg.Done() })
			}
			wg.Wait()
			out(fmt.Sprint(n))
		}},
		{"a loop that polls with Gosched lets the other goroutines run (default schedule terminates)", []string{"seen after 1 polls", "seen after 2 polls", "seen after 3 polls", "spinning"}, func(out func(string)) {
			flag := false
			vsched.GoUser("setter", func() { vsched.Yield("setter.step"); flag = true })
			n := 0
			for !flag {
				n++
				if n > 3 {
					out("spinning") // continuing with the poller costs a deviation each time: bounded
					return
				}
				vsched.Gosched()
			}
			if n == 0 {
				out("seen at once")
			} else {
				out(fmt.Sprintf("seen after %d polls", n))
			}
		}},
		{"once runs exactly once and later callers wait for it", []string{"1 1"}, func(out func(string)) {
			var o vsync.Once
			var wg vsync.WaitGroup
			n, seen := 0, 0
			for i := 0; i < 2; i++ {
				wg.Add(1)
				vsched.GoUser(fmt.Sprint("t", i), func() { o.Do(func() { vsched.Yield("in once"); n++ }); seen = n; wg.Done() })
			}
			wg.Wait()
			out(fmt.Sprint(n, " ", seen))
		}},
	}
}

func syncSelfTestUnits(tier string) []Unit {
	var units []Unit
	for _, p := range syncPrograms() {
		p := p
		units = append(units, Unit{Name: "sync-shims/" + p.name, Weight: 2, Run: func(c *Ctx) {
			got := map[string]bool{}
			var last string
			sc := func() (func(), func(*vsched.Exec), func(vsched.Result) error) {
				last = ""
				return func() { p.body(func(s string) { last = s }) }, nil, func(res vsched.Result) error {
					if err := StdCheck(res); err != nil {
						return err
					}
					got[last] = true
					return nil
				}
			}
			ExploreSched(c, sc, SchedOpts{Budgets: []int{8}, MaxEnv: -1, MaxSteps: 5000, NoCache: true})
			var gs []string
			for k := range got {
				gs = append(gs, k)
			}
			sort.Strings(gs)
			want := append([]string(nil), p.want...)
			sort.Strings(want)
			if strings.Join(gs, "|") != strings.Join(want, "|") {
				c.Violation("selftest/shim-outcomes-differ-from-the-spec", fmt.Sprintf("%s: outcomes under the shims %q, the Go specification allows exactly %q", p.name, gs, want), nil, nil)
			}
			c.NT(p.name)
			c.Sample(map[string]any{"program": p.name, "outcomes": gs})
		}})
	}
	return units
}
