package harness

import "fmt"

// txn alphabet of C01/C02/C08: single-key Set/Delete on every key, two-key transactions on every pair
func seqTxnAlphabet(twoKey bool) []txProg { return seqTxnAlphabetOver(seqKeys, twoKey) }

// sizeKeys: a short key, a 100-byte key with 3 000-byte values, the largest key with the largest values (see xKey)
var sizeKeys = []string{"k", "k!#100", "k@1#max"}

func seqTxnAlphabetOver(seqKeys []string, twoKey bool) []txProg {
	var a []txProg
	for _, k := range seqKeys {
		a = append(a, txProg{Update: true, Ops: []txOp{{Op: "S", K: k}}, End: "C"})
	}
	for _, k := range seqKeys {
		a = append(a, txProg{Update: true, Ops: []txOp{{Op: "D", K: k}}, End: "C"})
	}
	if twoKey {
		for i := range seqKeys {
			k1, k2 := seqKeys[i], seqKeys[(i+1)%len(seqKeys)]
			a = append(a, txProg{Update: true, Ops: []txOp{{Op: "S", K: k1}, {Op: "S", K: k2}}, End: "C"})
			a = append(a, txProg{Update: true, Ops: []txOp{{Op: "S", K: k2}, {Op: "D", K: k1}}, End: "C"})
		}
	}
	return a
}

var (
	cfgRotateAlways = dbCfg{Mem: 1, Imm: 1, Block: 1, L0: 1, Ratio: 1, SL: 1}
	cfgUnbuffered   = dbCfg{Mem: 1, Imm: 0, Block: 4096, L0: 1, Ratio: 2, SL: 2}
	cfgSmall        = dbCfg{Mem: 70, Imm: 2, Block: 30, L0: 2, Ratio: 2, SL: 4}
	cfgMemOnly      = dbCfg{Mem: memHuge, Imm: 1, Block: 4096, L0: 2, Ratio: 2, SL: 3}
	// one table per commit, three tables in L0 before it compacts: L0 compaction picks the front table and what
	// overlaps it, so a newer table can go down to L1 while an older, disjoint one stays in L0
	cfgL0Two = dbCfg{Mem: 1, Imm: 2, Block: 4096, L0: 2, Ratio: 1, SL: 1}
	// for the size plans: two of the largest entries fit into one memtable and one data block
	cfgBigBlocks = dbCfg{Mem: 150000, Imm: 1, Block: 140000, L0: 1, Ratio: 2, SL: 2}
)

// enumSeqs calls f for every sequence of length n over alphabet (as index vectors).
func enumSeqs(alpha, n int, f func(ix []int)) {
	ix := make([]int, n)
	var rec func(p int)
	rec = func(p int) {
		if p == n {
			f(ix)
			return
		}
		for i := 0; i < alpha; i++ {
			ix[p] = i
			rec(p + 1)
		}
	}
	rec(0)
}

func c01Units(tier string) []Unit {
	var units []Unit
	full := seqTxnAlphabet(true)
	single := seqTxnAlphabet(false)
	sizes := seqTxnAlphabetOver(sizeKeys, true)
	type plan struct {
		name    string
		cfg     dbCfg
		alpha   []txProg
		depth   int
		budgets []int
		eager   bool
	}
	var plans []plan
	if tier == "quick" {
		plans = []plan{
			{"all-seqs/d3/rotate-always", cfgRotateAlways, full, 3, []int{0}, true},
			{"all-seqs/d3/unbuffered", cfgUnbuffered, full, 3, []int{0}, true},
			{"all-seqs/d4/small", cfgSmall, single, 4, []int{0}, true},
			{"all-seqs/d3/l0=2", cfgL0Two, full, 3, []int{0}, true},
			{"dev1/d2/rotate-always", cfgRotateAlways, full, 2, []int{0, 1}, false},
			{"dev1/d2/unbuffered", cfgUnbuffered, single, 2, []int{0, 1}, false},
			{"sizes/d3/rotate-always", cfgRotateAlways, sizes, 3, []int{0}, false},
			{"sizes/d3/big-blocks", cfgBigBlocks, sizes, 3, []int{0}, false},
		}
	} else {
		plans = []plan{
			{"all-seqs/d4/rotate-always", cfgRotateAlways, full, 4, []int{0}, true},
			{"all-seqs/d4/unbuffered", cfgUnbuffered, full, 4, []int{0}, true},
			{"all-seqs/d5/small", cfgSmall, single, 5, []int{0}, true},
			{"all-seqs/d4/l0=2", cfgL0Two, full, 4, []int{0}, true},
			{"dev1/d3/l0=2", cfgL0Two, full, 3, []int{0, 1}, true},
			{"all-seqs/d3/mem-only", cfgMemOnly, full, 3, []int{0}, false},
			{"dev1/d3/rotate-always", cfgRotateAlways, full, 3, []int{0, 1}, true},
			{"dev1/d3/unbuffered", cfgUnbuffered, single, 3, []int{0, 1}, true},
			{"dev2/d2/rotate-always", cfgRotateAlways, single, 2, []int{0, 1, 2}, false},
			{"dev2/d2/small", cfgSmall, full, 2, []int{0, 1, 2}, false},
			{"sizes/d4/rotate-always", cfgRotateAlways, sizes, 4, []int{0}, true},
			{"sizes/d4/big-blocks", cfgBigBlocks, sizes, 4, []int{0}, true},
			{"sizes/d3/l0=2", cfgL0Two, sizes, 3, []int{0, 1}, true},
		}
	}
	for _, pl := range plans {
		pl := pl
		// one unit per first transaction
		for first := range pl.alpha {
			first := first
			units = append(units, Unit{Name: fmt.Sprintf("%s/first=%s", pl.name, pl.alpha[first]), Weight: pl.depth*10 + len(pl.budgets)*5, Run: func(c *Ctx) {
				if c.Replay != nil {
					replaySeq(c, "c01")
					return
				}
				enumSeqs(len(pl.alpha), pl.depth-1, func(ix []int) {
					if c.TimeUp() {
						if c.Res.Exhaustive {
							c.Res.Exhaustive = false
							c.Cap("deadline reached before all sequences of this unit were run")
						}
						return
					}
					if len(c.Res.Violations) >= 6 {
						c.Res.Exhaustive = false
						return
					}
					steps := []seqStep{{Kind: "T", Prog: pl.alpha[first]}}
					for _, i := range ix {
						steps = append(steps, seqStep{Kind: "T", Prog: pl.alpha[i]})
					}
					exploreSeq(c, "c01", []dbCfg{pl.cfg}, steps, pl.budgets, pl.eager)
				})
			}})
		}
	}
	return units
}

func init() {
	Props["C01"] = &PropMeta{
		Units: c01Units,
		Rule: "every sequence of committed transactions up to the stated depth over the alphabet {Set(k), Delete(k), two-key Set+Set / Set+Delete} on keys 'k','k!','k@1' (values unique, every fourth empty), " +
			"on a real DB with rotation on every entry / unbuffered flush queue / small thresholds, with the background flusher lazy (default schedule) and eager (drained after every step), " +
			"and, for the dev plans, every schedule within the stated number of deviations from the default schedule (a flush or compaction can start or stop inside a commit or a read); after every transaction " +
			"a fresh View reads every key and a never-written key and compares with a map model; an execution is non-trivial when a written key was read while its newest version was no longer in the active memtable",
		Assumptions: []string{
			"sequentially consistent interleavings at the shims' scheduling points; deviation (delay) bounding: every non-default thread choice costs 1",
			"map iteration order of multi-key commits: default (sorted) only in this check",
			"tiny thresholds make rotation, flush and multi-level compaction reachable with 2-5 transactions",
		},
		QuickS: 120, ThoroughS: 1500,
	}
}
