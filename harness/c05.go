package harness

import "fmt"

var txnKeys = []string{"x", "x@1"} // the second user key contains the version separator

// longTxnKeys: two 100-byte keys that differ only in their last bytes, with 3 000-byte values (see xKey)
var longTxnKeys = []string{"x#100", "x@1#100"}

var (
	cfgTxnMem    = dbCfg{Mem: memHuge, Imm: 1, Block: 4096, L0: 2, Ratio: 2, SL: 2}
	cfgTxnRotate = dbCfg{Mem: 1, Imm: 1, Block: 1, L0: 1, Ratio: 1, SL: 1}
	cfgTxnUnbuf  = dbCfg{Mem: 1, Imm: 0, Block: 4096, L0: 1, Ratio: 2, SL: 1}
	// two frozen memtables can wait for the lazy flusher: reads have to pick the newest among several queued memtables
	cfgTxnQueue2 = dbCfg{Mem: 1, Imm: 2, Block: 30, L0: 2, Ratio: 2, SL: 1}
)

// the fine-grained scenario menu shared by C05, C06, C07, C12 and C15
func txnScenarios() []txnScen {
	// two initial commits: the second one begins with the first one's timestamp and finishes, which lifts the read
	// watermark above zero - version discard in compactions is active while the scenario's readers are open
	init := []txProg{rw("C", "wx", "wy"), rw("C", "wy")}
	return []txnScen{
		{Name: "S1-lost-update", Init: init, Threads: [][]txProg{{rw("C", "rx", "wx")}, {rw("C", "rx", "wx")}}},
		{Name: "S2-write-skew", Init: init, Threads: [][]txProg{{rw("C", "rx", "ry", "wx")}, {rw("C", "rx", "ry", "wy")}}},
		{Name: "S3-observer-of-two-key-commit", Init: init, Threads: [][]txProg{{rw("C", "wx", "wy")}, {ro("rx", "ry")}}},
		{Name: "S4-commit-racing-begin", Init: init, Threads: [][]txProg{{rw("C", "wx")}, {ro("rx"), ro("rx")}, {rw("C", "rx", "wy")}}},
		{Name: "S5-three-writers", Init: init, Threads: [][]txProg{{rw("C", "rx", "wx")}, {rw("C", "ry", "wx")}, {rw("C", "wy")}}},
		{Name: "R1-long-reader-vs-writers", Init: init, Threads: [][]txProg{{ro("rx", "rx", "ry", "rx")}, {rw("C", "wx"), rw("C", "wx", "dy"), rw("C", "wx")}}},
		{Name: "R3-own-writes-overlay", Init: init, Threads: [][]txProg{{rw("C", "rx", "wx", "rx", "ry", "dx", "rx")}, {rw("C", "wx", "wy")}}},
		{Name: "R4-two-readers-one-finishes", Init: init, Threads: [][]txProg{{ro("rx")}, {ro("rx", "ry", "rx")}, {rw("C", "wx"), rw("C", "wx"), rw("C", "wy")}}},
		// long-lived readers that read again only when the writers are done and the flusher is idle ("Q" steers, never judges):
		// the snapshot has to survive rotation, flush, compaction and version discard with the watermark wherever the
		// other transactions left it; one writer shares the reader's snapshot timestamp
		{Name: "R5-reader-spans-compactions", Init: init, Threads: [][]txProg{{ro("rx", "Q", "rx", "ry")}, {rw("C", "wa", "wx", "wz"), rw("C", "wa", "wx", "dy", "wz"), rw("C", "wa", "wx", "wy", "wz"), rw("C", "wa", "wx", "wz")}}},
		{Name: "R7-reader-on-reopened-store-spans-compactions", Init: init, Reopen: true, Threads: [][]txProg{{ro("rx", "ry", "Q", "rx", "ry")}, {rw("C", "wa", "wx", "dy", "wz"), rw("C", "wa", "wx", "wy", "wz"), rw("C", "wa", "wx", "wz")}}},
		{Name: "R8-updating-reader-on-reopened-store", Init: init, Reopen: true, Threads: [][]txProg{{rw("C", "ry", "Q", "rx", "ry", "wy")}, {rw("C", "wa", "wx", "wy", "wz"), ro("rx"), rw("C", "wa", "wx", "dy", "wz"), rw("C", "wa", "wx", "wz")}}},
		// an old snapshot reads the keys of a commit while that commit's memtable is being flushed: the commit runs first
		// (lowest thread id), the flusher next, and one deviation at any of the flusher's file operations lets the reader in
		{Name: "R9-old-snapshot-reads-while-flushed", Init: init, Staged: []stagedTxn{{Prog: rw("C", "wx", "wy"), Defer: true}, {Prog: ro("rx"), Defer: true, Tail: []txOp{{Op: "G", K: scenKey("x")}, {Op: "G", K: scenKey("y")}}}}},
		// a conflicting commit followed by forty unrelated transactions that come and go before the reader commits: the
		// conflict must still be seen (per-transaction resources of the engine are recycled in between)
		{Name: "S6-lost-update-after-many-bystanders", Init: init, Staged: []stagedTxn{{Prog: rw("C", "rx", "wx"), Defer: true}, {Prog: rw("C", "wx"), Pad: 40}}, Threads: [][]txProg{{ro("rx")}}},
		{Name: "S7-write-skew-after-many-bystanders", Init: init, Staged: []stagedTxn{{Prog: rw("C", "rx", "ry", "wx"), Defer: true}, {Prog: rw("C", "rx", "ry", "wy"), Pad: 40}}, Threads: [][]txProg{{ro("rx", "ry")}}},
		// a key written twice, the victim's snapshot between the two commits; an old reader that held the read watermark
		// below the first commit goes away, a third commit cleans up: the record of the SECOND commit must survive the
		// expiry of the first
		{Name: "S8-conflict-survives-expiry-of-older-commit-of-the-key", Init: init, Staged: []stagedTxn{{Prog: ro("ry"), Defer: true}, {Prog: rw("C", "wx")}, {Prog: rw("C", "wa")}, {Prog: rw("C", "rx", "wx"), Defer: true}, {Prog: rw("C", "wx")}}, Threads: [][]txProg{{rw("C", "wa"), rw("C", "wz")}}},
		{Name: "R6-updating-reader-spans-compactions", Init: init, Threads: [][]txProg{{rw("C", "ry", "Q", "rx", "ry", "wy")}, {rw("C", "rx", "wa", "wx", "wz"), rw("C", "wa", "wx", "wy", "wz"), ro("rx"), rw("C", "wa", "wx", "dy", "wz"), rw("C", "wa", "wx", "wz")}}},
		{Name: "C1-read-absent-delete", Init: []txProg{rw("C", "wy")}, Threads: [][]txProg{{rw("C", "rx", "wy")}, {rw("C", "wx")}, {rw("C", "dx")}}},
		{Name: "C2-own-write-then-read", Init: init, Threads: [][]txProg{{rw("C", "wx", "rx", "wy")}, {rw("C", "wx")}, {rw("X", "rx", "wx")}}},
	}
}

// hybridScenarios: staged prefixes with concurrent commits (see txnScen.Staged). Over a menu of small update
// programs: (A deferred, B committed in the prefix, C deferred) with a concurrent reader, (A, B deferred) with a
// concurrent reader, and (A, B, C deferred).
func hybridScenarios(tier string) []txnScen {
	init := []txProg{rw("C", "wx", "wy"), rw("C", "wy")}
	menu := []txProg{rw("C", "rx", "wx"), rw("C", "rx", "wy"), rw("C", "wx"), rw("C", "wy")}
	if tier == "thorough" {
		menu = append(menu, rw("C", "ry", "wx"), rw("C", "rx", "ry", "wx"), rw("C", "dx"), rw("X", "rx", "wx"))
	}
	short := func(p txProg) string {
		s := p.String()
		return s[3 : len(s)-2]
	}
	var out []txnScen
	for _, a := range menu {
		for _, b := range menu {
			out = append(out, txnScen{Name: fmt.Sprintf("H2[%s|%s]+reader", short(a), short(b)), Init: init,
				Staged: []stagedTxn{{Prog: a, Defer: true}, {Prog: b, Defer: true}}, Threads: [][]txProg{{ro("rx", "ry")}}})
			for _, c := range menu {
				out = append(out, txnScen{Name: fmt.Sprintf("H3[%s|%s committed|%s]+reader", short(a), short(b), short(c)), Init: init,
					Staged: []stagedTxn{{Prog: a, Defer: true}, {Prog: b}, {Prog: c, Defer: true}}, Threads: [][]txProg{{ro("rx")}}})
				if tier == "thorough" {
					out = append(out, txnScen{Name: fmt.Sprintf("H3[%s|%s|%s]", short(a), short(b), short(c)), Init: init,
						Staged: []stagedTxn{{Prog: a, Defer: true}, {Prog: b, Defer: true}, {Prog: c, Defer: true}}})
				}
			}
		}
	}
	return out
}

type txnPlan struct {
	scen    string
	cfg     dbCfg
	cfgName string
	budgets []int
	shards  int
}

func txnPlans(tier string, prop string) []txnPlan {
	var plans []txnPlan
	add := func(s string, cfg dbCfg, cn string, b []int, sh int) {
		plans = append(plans, txnPlan{s, cfg, cn, b, sh})
	}
	quick := tier == "quick"
	for _, sc := range txnScenarios() {
		switch {
		case quick:
			add(sc.Name, cfgTxnMem, "mem-only", []int{0, 1, 2}, 1)
			add(sc.Name, cfgTxnRotate, "rotate-always", []int{0, 1}, 1)
		default:
			add(sc.Name, cfgTxnMem, "mem-only", []int{0, 1, 2, 3}, 4)
			add(sc.Name, cfgTxnRotate, "rotate-always", []int{0, 1, 2}, 8)
			add(sc.Name, cfgTxnUnbuf, "unbuffered", []int{0, 1, 2}, 4)
			add(sc.Name, cfgTxnQueue2, "queue=2", []int{0, 1, 2}, 4)
		}
	}
	if quick {
		// deeper on the two classic anomalies
		add("S1-lost-update", cfgTxnUnbuf, "unbuffered", []int{0, 1}, 1)
		add("S2-write-skew", cfgTxnUnbuf, "unbuffered", []int{0, 1}, 1)
		add("R1-long-reader-vs-writers", cfgTxnUnbuf, "unbuffered", []int{0, 1}, 1)
		for _, n := range []string{"R1-long-reader-vs-writers", "R5-reader-spans-compactions", "R6-updating-reader-spans-compactions", "S5-three-writers", "R4-two-readers-one-finishes"} {
			add(n, cfgTxnQueue2, "queue=2", []int{0, 1}, 1)
		}
	}
	return plans
}

func txnUnits(tier, prop string, oracles ...txnOracle) []Unit {
	var units []Unit
	scs := map[string]txnScen{}
	for _, s := range txnScenarios() {
		scs[s.Name] = s
	}
	// hybrid family: groups of scenarios per unit
	hy := hybridScenarios(tier)
	hb := []int{0, 1, 2}
	hcfgs := []struct {
		n string
		c dbCfg
	}{{"mem-only", cfgTxnMem}}
	if tier == "thorough" {
		hb = []int{0, 1, 2, 3}
		hcfgs = append(hcfgs, struct {
			n string
			c dbCfg
		}{"rotate-always", cfgTxnRotate})
	}
	const group = 5
	for _, hc := range hcfgs {
		for lo := 0; lo < len(hy); lo += group {
			hc, part := hc, hy[lo:min(lo+group, len(hy))]
			units = append(units, Unit{Name: fmt.Sprintf("hybrid/%s/budgets=%v/%d-%d", hc.n, hb, lo, lo+len(part)), Weight: 15, Run: func(c *Ctx) {
				for i, sc := range part {
					if c.Replay != nil {
						var rc struct{ Index int }
						jsonUnmarshal(c.Replay.Case, &rc)
						if rc.Index != i {
							continue
						}
						fmt.Println("scenario:", sc.Name)
					}
					if c.TimeUp() {
						c.Res.Exhaustive = false
						c.Cap("deadline reached before all hybrid scenarios of this unit were explored")
						return
					}
					sc.Cfg = hc.c
					sc.Keys = txnKeys
					sc.FreezeEpilogue = true
					sc.NoClose = true
					sc.NoClose = true
					nv := len(c.Res.Violations)
					exploreTxn(c, sc, hb[len(hb)-1:], 1, 0, oracles...)
					for k := nv; k < len(c.Res.Violations); k++ {
						c.Res.Violations[k].Case = jsonMarshal(map[string]any{"Index": i, "scenario": sc.Name})
						c.Res.Violations[k].Detail = "scenario " + sc.Name + "\n" + c.Res.Violations[k].Detail
					}
				}
			}})
		}
	}
	for _, pl := range txnPlans(tier, prop) {
		for sh := 0; sh < pl.shards; sh++ {
			pl, sh := pl, sh
			sc := scs[pl.scen]
			sc.Cfg = pl.cfg
			sc.Keys = txnKeys
			sc.FreezeEpilogue = true
			sc.NoClose = true
			sc.FSPoints = pl.cfg.Mem < 1000 // wherever memtables rotate, the file operations of the flusher are scheduling points
			name := fmt.Sprintf("sched/%s/%s/budgets=%v", pl.scen, pl.cfgName, pl.budgets)
			if pl.shards > 1 {
				name += fmt.Sprintf("/shard%d of %d", sh, pl.shards)
			}
			units = append(units, Unit{Name: name, Weight: 10 * pl.budgets[len(pl.budgets)-1], Run: func(c *Ctx) {
				exploreTxn(c, sc, pl.budgets, pl.shards, sh, oracles...)
			}})
		}
	}
	return units
}

// apiUnits: all tuples of small programs x all API-level interleavings.
func apiUnits(tier string, oracles ...txnOracle) []Unit {
	var units []Unit
	init := []txProg{rw("C", "wx")}
	type plan struct {
		name    string
		cfg     dbCfg
		k       int // transactions
		maxOps  int
		disc    bool
		eager   bool
		settled bool
		reopen  bool
		keys    []string
	}
	var plans []plan
	if tier == "quick" {
		plans = []plan{
			{"api/2txn/ops<=2/mem-only", cfgTxnMem, 2, 2, true, false, false, false, nil},
			{"api/3txn/ops<=1/mem-only", cfgTxnMem, 3, 1, false, false, false, false, nil},
			{"api/2txn/ops<=1/rotate-always/eager", cfgTxnRotate, 2, 1, false, true, false, false, nil},
			{"api/2txn/ops<=2/mem-only/settled", cfgTxnMem, 2, 2, false, false, true, false, nil},
			{"api/2txn/ops<=2/mem-only/reopened", cfgTxnMem, 2, 2, false, false, false, true, nil},
			{"api/2txn/ops<=2/mem-only/long-keys", cfgTxnMem, 2, 2, false, false, false, false, longTxnKeys},
		}
	} else {
		plans = []plan{
			{"api/2txn/ops<=3/mem-only", cfgTxnMem, 2, 3, false, false, false, false, nil},
			{"api/2txn/ops<=2/mem-only", cfgTxnMem, 2, 2, true, false, false, false, nil},
			{"api/3txn/ops<=1/mem-only", cfgTxnMem, 3, 1, true, false, false, false, nil},
			{"api/2txn/ops<=2/rotate-always/eager", cfgTxnRotate, 2, 2, false, true, false, false, nil},
			{"api/3txn/ops<=1/rotate-always/eager", cfgTxnRotate, 3, 1, false, true, false, false, nil},
			{"api/2txn/ops<=2/unbuffered", cfgTxnUnbuf, 2, 2, false, false, false, false, nil},
			{"api/2txn/ops<=2/mem-only/settled", cfgTxnMem, 2, 2, true, false, true, false, nil},
			{"api/3txn/ops<=1/mem-only/settled", cfgTxnMem, 3, 1, false, false, true, false, nil},
			{"api/2txn/ops<=2/mem-only/reopened", cfgTxnMem, 2, 2, true, false, false, true, nil},
			{"api/3txn/ops<=1/mem-only/reopened", cfgTxnMem, 3, 1, false, false, false, true, nil},
			{"api/2txn/ops<=2/mem-only/long-keys", cfgTxnMem, 2, 2, true, false, false, false, longTxnKeys},
			{"api/2txn/ops<=2/rotate-always/eager/long-keys", cfgTxnRotate, 2, 2, false, true, false, false, longTxnKeys},
		}
	}
	for _, pl := range plans {
		keys := txnKeys
		init := init
		if pl.keys != nil {
			keys = pl.keys
			init = []txProg{{Update: true, Ops: []txOp{{Op: "S", K: keys[0], V: "i0"}}, End: "C"}}
		}
		progs := apiPrograms(keys, pl.maxOps, pl.disc)
		// one unit per first program
		for fi := range progs {
			for si := range progs {
				if pl.k < 3 && si > 0 {
					break
				}
				pl, fi, si := pl, fi, si
				uname := fmt.Sprintf("%s/first=%s", pl.name, progs[fi])
				if pl.k >= 3 {
					uname += fmt.Sprintf("/second=%s", progs[si])
				}
				units = append(units, Unit{Name: uname, Weight: pl.k * pl.maxOps, Run: func(c *Ctx) {
					if c.Replay != nil {
						replayAPI(c, oracles...)
						return
					}
					idx := make([]int, pl.k)
					idx[0] = fi
					var rec func(p int)
					rec = func(p int) {
						if p == pl.k {
							if c.TimeUp() {
								if c.Res.Exhaustive {
									c.Res.Exhaustive = false
									c.Cap("deadline reached before all program tuples of this unit were run")
								}
								return
							}
							tuple := make([]txProg, pl.k)
							for i, x := range idx {
								tuple[i] = progs[x]
							}
							exploreAPI(c, pl.cfg, init, tuple, pl.keys, pl.eager, pl.settled, pl.reopen, oracles...)
							return
						}
						// transactions other than the first are interchangeable: non-decreasing indices
						from := 0
						if p >= 2 {
							from = idx[p-1]
						}
						for i := from; i < len(progs); i++ {
							idx[p] = i
							rec(p + 1)
						}
					}
					if pl.k >= 3 {
						idx[1] = si
						rec(2)
					} else {
						rec(1)
					}
				}})
			}
		}
	}
	return units
}

var txnAssumptions = []string{
	"sequentially consistent interleavings at the shims' scheduling points (locks, channels, select, atomics, goroutine start); data-race freedom is C12's subject",
	"deviation (delay) bounding: every non-default thread choice costs 1; executions run to completion; partial-order fingerprint pruning (sound under the bound, validated by comparing outcome sets)",
	"the oracles are black-box: call/return order of Begin, Get, Set, Delete, Commit, Discard and the returned values only",
	"64-bit murmur fingerprints of the keys used do not collide (checked at start-up)",
}

func init() {
	Props["C05"] = &PropMeta{
		Units: func(t string) []Unit {
			return append(txnUnits(t, "C05", oracleC05), apiUnits(t, oracleC05)...)
		},
		Rule: "fine-grained: every schedule within the deviation bound of reader/writer scenarios (long reader vs. writers with rotation, flush, compaction and version discard on every commit; observer of a two-key commit; " +
			"own-writes overlay; two readers with the same snapshot; the classic anomalies) on real goroutines; coarse: every tuple of small transaction programs x every API-level interleaving driven through several open " +
			"transactions; oracle: some commit order consistent with real time and, per transaction, one admissible prefix of it (all commits returned before Begin was called, none called after Begin returned) overlaid with own writes explains every Get. " +
			"non-trivial: executions in which two transactions overlapped in time, distinct by observed values",
		Assumptions: txnAssumptions,
		QuickS:      180, ThoroughS: 1800,
	}
	Props["C06"] = &PropMeta{
		Units: func(t string) []Unit {
			return append(txnUnits(t, "C06", oracleC06), apiUnits(t, oracleC06)...)
		},
		Rule: "same executions as C05; oracle: the committed transactions plus all transactions that only read have a serial order respecting real time (a before b when a finished before b began) in which every Get returns what " +
			"the preceding transactions wrote, decided by a brute-force permutation search and cross-checked on every history with porcupine (one operation per transaction on a key-value map model); the final read-only transaction ties the final state to the witness order",
		Assumptions: txnAssumptions,
		QuickS:      180, ThoroughS: 1800,
	}
	Props["C07"] = &PropMeta{
		Units: func(t string) []Unit {
			return append(txnUnits(t, "C07", oracleC07), apiUnits(t, oracleC07)...)
		},
		Rule: "same executions as C05 (the program space contains reads of absent keys, deletes, reads after own writes, write-only and read-only transactions, discarded writers); oracle (iff, both directions): for some commit order and " +
			"admissible snapshot that explain the reads, Commit returned the conflict error exactly when a committed transaction after the snapshot and before this commit wrote a key this transaction read from the store; " +
			"transactions that wrote nothing are never refused; a refused transaction leaves no trace (later reads)",
		Assumptions: txnAssumptions,
		QuickS:      180, ThoroughS: 1800,
	}
}
