package harness

import (
	"errors"
	"fmt"
	"io"
	"io/fs"
	"os"
	"path/filepath"
	"sort"
	"strings"

	"verif/shim/vfilepath"
	"verif/shim/vos"
)

// Self-test of the in-memory file system: every script of up to N operations from a small menu is run
// on vos and on the real os (in a temporary directory); return values, error classes, data read and
// directory listings must agree. This binds the "model" half of the crash checks to reality.

type fsOp struct {
	Kind string // open write read seek sync close remove rename stat readdir truncate
	A    int    // file name index / handle index
	B    int    // flag index / seek variant / second name
}

var fsNames = []string{"f", "g"}

var fsFlags = []struct {
	name string
	v    int
}{
	{"RDONLY", os.O_RDONLY},
	{"RDWR|CREATE", os.O_RDWR | os.O_CREATE},
	{"RDWR|CREATE|TRUNC", os.O_RDWR | os.O_CREATE | os.O_TRUNC},
	{"RDWR|CREATE|APPEND", os.O_RDWR | os.O_CREATE | os.O_APPEND},
	{"RDWR|CREATE|EXCL", os.O_RDWR | os.O_CREATE | os.O_EXCL},
	{"WRONLY", os.O_WRONLY},
}

func (o fsOp) String() string {
	switch o.Kind {
	case "open":
		return fmt.Sprintf("open(%s,%s)", fsNames[o.A], fsFlags[o.B].name)
	case "rename":
		return fmt.Sprintf("rename(%s,%s)", fsNames[o.A], fsNames[o.B])
	case "remove", "stat":
		return fmt.Sprintf("%s(%s)", o.Kind, fsNames[o.A])
	case "seek":
		return fmt.Sprintf("seek(h%d,%s)", o.A, []string{"0,start", "-1,end", "-5,start", "1,cur"}[o.B])
	case "readdir":
		return "readdir"
	}
	return fmt.Sprintf("%s(h%d)", o.Kind, o.A)
}

func errClass(err error) string {
	switch {
	case err == nil:
		return "ok"
	case err == io.EOF:
		return "EOF"
	case errors.Is(err, fs.ErrNotExist):
		return "ENOENT"
	case errors.Is(err, fs.ErrExist):
		return "EEXIST"
	case errors.Is(err, fs.ErrClosed):
		return "closed"
	}
	return "err"
}

// fsBackend abstracts the two implementations.
type fsFile interface {
	Write([]byte) (int, error)
	Read([]byte) (int, error)
	Seek(int64, int) (int64, error)
	Sync() error
	Close() error
	Truncate(int64) error
}

type fsBackend struct {
	open    func(name string, flag int) (fsFile, error)
	remove  func(name string) error
	rename  func(a, b string) error
	stat    func(name string) (int64, error)
	readdir func() ([]string, error)
	listing func() []string // the same directory through Glob, a directory handle and WalkDir
}

func runFsScript(b fsBackend, ops []fsOp) string {
	var hs []fsFile
	var tr []string
	for i, o := range ops {
		var r string
		switch o.Kind {
		case "open":
			f, err := b.open(fsNames[o.A], fsFlags[o.B].v)
			r = errClass(err)
			if err == nil {
				hs = append(hs, f)
			} else {
				hs = append(hs, nil)
			}
		case "remove":
			r = errClass(b.remove(fsNames[o.A]))
		case "rename":
			r = errClass(b.rename(fsNames[o.A], fsNames[o.B]))
		case "stat":
			n, err := b.stat(fsNames[o.A])
			r = fmt.Sprintf("%s/%d", errClass(err), n)
		case "readdir":
			l, err := b.readdir()
			r = fmt.Sprintf("%s/%v/%v", errClass(err), l, b.listing())
		default:
			if o.A >= len(hs) || hs[o.A] == nil {
				r = "nohandle"
				break
			}
			h := hs[o.A]
			switch o.Kind {
			case "write":
				n, err := h.Write([]byte(fmt.Sprintf("w%d.", i)))
				r = fmt.Sprintf("%s/%d", errClass(err), n)
			case "read":
				buf := make([]byte, 4)
				n, err := h.Read(buf)
				r = fmt.Sprintf("%s/%q", errClass(err), buf[:n])
			case "seek":
				off, wh := []int64{0, -1, -5, 1}[o.B], []int{io.SeekStart, io.SeekEnd, io.SeekStart, io.SeekCurrent}[o.B]
				p, err := h.Seek(off, wh)
				r = fmt.Sprintf("%s/%d", errClass(err), p)
			case "sync":
				r = errClass(h.Sync())
			case "close":
				r = errClass(h.Close())
			case "truncate":
				r = errClass(h.Truncate(2))
			}
		}
		tr = append(tr, o.String()+"="+r)
	}
	for _, h := range hs {
		if h != nil {
			h.Close()
		}
	}
	// final contents
	l, _ := b.readdir()
	for _, n := range l {
		f, err := b.open(n, os.O_RDONLY)
		if err == nil {
			data, _ := io.ReadAll(f.(io.Reader))
			tr = append(tr, fmt.Sprintf("final %s=%q", n, data))
			f.Close()
		}
	}
	return strings.Join(tr, " ; ")
}

func realBackend(dir string) fsBackend {
	return fsBackend{
		open: func(name string, flag int) (fsFile, error) {
			f, err := os.OpenFile(filepath.Join(dir, name), flag, 0o644)
			if err != nil {
				return nil, err
			}
			return f, nil
		},
		remove: func(name string) error { return os.Remove(filepath.Join(dir, name)) },
		rename: func(a, b string) error { return os.Rename(filepath.Join(dir, a), filepath.Join(dir, b)) },
		stat: func(name string) (int64, error) {
			fi, err := os.Stat(filepath.Join(dir, name))
			if err != nil {
				return 0, err
			}
			return fi.Size(), nil
		},
		readdir: func() ([]string, error) {
			es, err := os.ReadDir(dir)
			var r []string
			for _, e := range es {
				r = append(r, e.Name())
			}
			return r, err
		},
		listing: func() []string {
			var r []string
			ms, _ := filepath.Glob(filepath.Join(dir, "*"))
			for _, m := range ms {
				r = append(r, "glob:"+filepath.Base(m))
			}
			ms, _ = filepath.Glob(filepath.Join(dir, "?"))
			r = append(r, fmt.Sprintf("glob?:%d", len(ms)))
			if d, err := os.Open(dir); err == nil {
				ns, _ := d.Readdirnames(-1)
				sort.Strings(ns)
				r = append(r, "names:"+strings.Join(ns, ","))
				d.Close()
			}
			filepath.WalkDir(dir, func(p string, de os.DirEntry, err error) error {
				rel, _ := filepath.Rel(dir, p)
				r = append(r, fmt.Sprintf("walk:%s/%v", rel, de != nil && de.IsDir()))
				return nil
			})
			return r
		},
	}
}

func shimBackend() fsBackend {
	vos.SetFS(vos.NewFS())
	vos.MkdirAll("/t", 0o755)
	return fsBackend{
		open: func(name string, flag int) (fsFile, error) {
			f, err := vos.OpenFile("/t/"+name, flag, 0o644)
			if err != nil {
				return nil, err
			}
			return f, nil
		},
		remove: func(name string) error { return vos.Remove("/t/" + name) },
		rename: func(a, b string) error { return vos.Rename("/t/"+a, "/t/"+b) },
		stat: func(name string) (int64, error) {
			fi, err := vos.Stat("/t/" + name)
			if err != nil {
				return 0, err
			}
			return fi.Size(), nil
		},
		readdir: func() ([]string, error) {
			es, err := vos.ReadDir("/t")
			var r []string
			for _, e := range es {
				r = append(r, e.Name())
			}
			sort.Strings(r)
			return r, err
		},
		listing: func() []string {
			var r []string
			ms, _ := vfilepath.Glob("/t/*")
			for _, m := range ms {
				r = append(r, "glob:"+vfilepath.Base(m))
			}
			ms, _ = vfilepath.Glob("/t/?")
			r = append(r, fmt.Sprintf("glob?:%d", len(ms)))
			if d, err := vos.Open("/t"); err == nil {
				ns, _ := d.Readdirnames(-1)
				sort.Strings(ns)
				r = append(r, "names:"+strings.Join(ns, ","))
				d.Close()
			}
			vfilepath.WalkDir("/t", func(p string, de os.DirEntry, err error) error {
				rel, _ := vfilepath.Rel("/t", p)
				r = append(r, fmt.Sprintf("walk:%s/%v", rel, de != nil && de.IsDir()))
				return nil
			})
			return r
		},
	}
}

func selfTestUnits(tier string) []Unit {
	var menu []fsOp
	for n := range fsNames {
		for f := range fsFlags {
			menu = append(menu, fsOp{Kind: "open", A: n, B: f})
		}
		menu = append(menu, fsOp{Kind: "remove", A: n}, fsOp{Kind: "stat", A: n})
	}
	menu = append(menu, fsOp{Kind: "rename", A: 0, B: 1}, fsOp{Kind: "rename", A: 1, B: 0}, fsOp{Kind: "readdir"})
	for h := 0; h < 2; h++ {
		menu = append(menu, fsOp{Kind: "write", A: h}, fsOp{Kind: "read", A: h}, fsOp{Kind: "sync", A: h}, fsOp{Kind: "close", A: h}, fsOp{Kind: "truncate", A: h})
		for v := 0; v < 4; v++ {
			menu = append(menu, fsOp{Kind: "seek", A: h, B: v})
		}
	}
	depth := 4
	if tier == "thorough" {
		depth = 5
	}
	var units []Unit
	for first := range menu {
		first := first
		if menu[first].Kind != "open" || menu[first].A != 0 {
			continue // every useful script starts by opening something; the two names are interchangeable
		}
		for second := range menu {
			second := second
			units = append(units, Unit{Name: fmt.Sprintf("vos-vs-os/depth<=%d/first=%s/second=%s", depth, menu[first], menu[second]), Weight: 1, Run: func(c *Ctx) {
				base := ""
				if fi, err := os.Stat("/dev/shm"); err == nil && fi.IsDir() {
					base = "/dev/shm" // tmpfs: fsync is cheap
				}
				dir, err := os.MkdirTemp(base, "vos-selftest-")
				if err != nil {
					c.Res.EngineError = err.Error()
					return
				}
				defer os.RemoveAll(dir)
				n := 0
				enumSeqs(len(menu), depth-2, func(ix []int) {
					if len(c.Res.Violations) >= 5 {
						return
					}
					if c.TimeUp() {
						if c.Res.Exhaustive {
							c.Res.Exhaustive = false
							c.Cap("deadline reached before all scripts of this unit were run")
						}
						return
					}
					ops := []fsOp{menu[first], menu[second]}
					for _, i := range ix {
						ops = append(ops, menu[i])
					}
					// prune scripts that use handle 1 before two opens happened
					opens := 0
					for _, o := range ops {
						if o.Kind == "open" {
							opens++
						} else if o.Kind != "remove" && o.Kind != "rename" && o.Kind != "stat" && o.Kind != "readdir" && o.A >= opens {
							return
						}
					}
					n++
					sub := filepath.Join(dir, fmt.Sprint(n))
					os.Mkdir(sub, 0o755)
					real := runFsScript(realBackend(sub), ops)
					os.RemoveAll(sub)
					shim := runFsScript(shimBackend(), ops)
					c.Res.Executions++
					c.Res.Evaluations++
					c.Res.Transitions += int64(len(ops))
					c.Res.States++
					if real != shim {
						c.Violation("selftest/vos-differs-from-os/"+ops[len(ops)-1].Kind, fmt.Sprintf("script %v\n  os : %s\n  vos: %s", ops, real, shim), nil, nil)
					}
					if n%97 == 0 {
						c.NT(real)
					}
					c.Sample(map[string]any{"script": fmt.Sprint(ops), "transcript": real})
				})
			}})
		}
	}
	return units
}

func init() {
	Props["SELF"] = &PropMeta{
		Units: func(t string) []Unit {
			return append(append(syncSelfTestUnits(t), pruneSelfTestUnits(t)...), selfTestUnits(t)...)
		},
		Rule:        "self-test (not a property of originium): every script of up to 4 (thorough: 5) file operations from a menu of opens with six flag combinations, write, read, seek, sync, close, truncate, remove, rename, stat and readdir on two names is run on the in-memory file system shim and on the real os in a temporary directory; transcripts (error classes, byte counts, data, listings, final contents) must be identical",
		Assumptions: []string{"the real file system of the sandbox (ext4/overlay) is the reference"},
		QuickS:      120, ThoroughS: 900,
	}
}

// pruneSelfTest: the partial-order fingerprint pruning must not lose behaviours: for several scenarios and
// budgets the set of distinct outcomes (observed values and commit results of every transaction) found with
// pruning must equal the set found without it.
func pruneSelfTestUnits(tier string) []Unit {
	var units []Unit
	scs := txnScenarios()
	picks := []int{0, 1, 4, 5} // S1, S2, S5, R1
	cfgs := []struct {
		n string
		c dbCfg
		b int
	}{{"mem-only", cfgTxnMem, 2}, {"rotate-always", cfgTxnRotate, 1}}
	if tier == "thorough" {
		cfgs = []struct {
			n string
			c dbCfg
			b int
		}{{"mem-only", cfgTxnMem, 3}, {"rotate-always", cfgTxnRotate, 2}}
	}
	for _, pi := range picks {
		for _, cf := range cfgs {
			sc, cf := scs[pi], cf
			sc.Cfg = cf.c
			sc.Keys = txnKeys
			sc.FreezeEpilogue, sc.NoClose = true, true
			units = append(units, Unit{Name: fmt.Sprintf("prune-soundness/%s/%s/budget=%d", sc.Name, cf.n, cf.b), Weight: 5, Run: func(c *Ctx) {
				sets := [2]map[string]bool{{}, {}}
				execs := [2]int64{}
				for mode := 0; mode < 2; mode++ {
					var obs txnObs
					sub := &Ctx{Prop: c.Prop, Tier: c.Tier}
					ExploreSched(sub, txnScenario(sc, &obs), SchedOpts{Delay: true, Budgets: []int{cf.b}, MaxEnv: 1, EnvKinds: dbEnvKinds, MaxSteps: 300000,
						NoCache: mode == 0,
						Outcome: func() string { k := obs.outcomeKey() + " | " + obs.realTimeKey(); sets[mode][k] = true; return k }})
					execs[mode] = sub.Res.Executions
					c.Res.Executions += sub.Res.Executions
					c.Res.Transitions += sub.Res.Transitions
					c.Res.States += sub.Res.States
					c.Res.Evaluations += sub.Res.Evaluations
				}
				for k := range sets[0] {
					if !sets[1][k] {
						c.Violation("selftest/pruning-lost-an-outcome", fmt.Sprintf("%s: outcome found without pruning (%d executions) but not with pruning (%d executions): %s", sc.Name, execs[0], execs[1], k), nil, nil)
						break
					}
				}
				for k := range sets[1] {
					if !sets[0][k] {
						c.Violation("selftest/pruning-invented-an-outcome", fmt.Sprintf("%s: outcome found only with pruning: %s", sc.Name, k), nil, nil)
						break
					}
				}
				c.NT(fmt.Sprintf("%s %s %d outcomes", sc.Name, cf.n, len(sets[0])))
				c.Sample(map[string]any{"scenario": sc.Name, "config": cf.n, "budget": cf.b, "outcomes": len(sets[0]), "executions_unpruned": execs[0], "executions_pruned": execs[1]})
			}})
		}
	}
	return units
}

// realTimeKey: the real-time relations between transactions that the history oracles look at.
func (o *txnObs) realTimeKey() string {
	var b strings.Builder
	for _, a := range o.hist.txns {
		for _, t := range o.hist.txns {
			if a == t {
				continue
			}
			switch {
			case a.EndRet < t.BeginCall:
				b.WriteString("<")
			case a.EndCall > t.BeginRet:
				b.WriteString(">")
			default:
				b.WriteString("~")
			}
			if a.EndRet < t.EndCall {
				b.WriteString("c")
			}
		}
		b.WriteString(";")
	}
	return b.String()
}
