package harness

import "fmt"

func crashUnits(prop, tier string) []Unit {
	var units []Unit
	ws := crashWorkloads()
	for _, w := range ws {
		w := w
		var budgets []int
		var o crashOpts
		switch prop {
		case "C03":
			o = crashOpts{Clocks: []int{0, 1, 2}, Nested: 1}
			budgets = []int{0, 1}
			if tier == "thorough" {
				budgets = []int{0, 1, 2}
			}
			if w.Name == "W6-multikey-atomicity" {
				continue
			}
			if w.Name == "W7-large-multikey" {
				budgets = []int{0}
				o.Nested = 0
			}
			if w.Name == "W9-many-tables" {
				budgets = []int{0}
				o.Nested = 0
				o.Clocks = []int{0}
			}
			if w.Name == "W10-multikey-deletes-cascade" {
				budgets = []int{0}
				o.Nested = 0
			}
			if w.Name == "W11-megabyte-multikey" {
				budgets = []int{0}
				o.Nested = 0
				o.Clocks = []int{2}
			}
		case "C04":
			o = crashOpts{Clocks: []int{0, 1, 2}, Atomicity: true, Nested: 1}
			budgets = []int{0, 1}
			if tier == "thorough" {
				budgets = []int{0, 1, 2}
			}
			if w.Name != "W6-multikey-atomicity" && w.Name != "W4-multikey-straddles-rotation" && w.Name != "W7-large-multikey" && w.Name != "W8-two-committers" && w.Name != "W10-multikey-deletes-cascade" && w.Name != "W11-megabyte-multikey" {
				continue
			}
			if w.Name == "W7-large-multikey" {
				budgets = []int{0}
			}
			if w.Name == "W11-megabyte-multikey" {
				budgets = []int{0}
				o.Nested = 0
				o.Clocks = []int{2}
			}
		case "C14":
			o = crashOpts{Clocks: []int{2}, Torn: true, TornStep: 1, Nested: 1}
			budgets = []int{0}
			if tier == "thorough" {
				o.Clocks = []int{0, 2}
				o.Nested = 1
				budgets = []int{0, 1, 2}
			}
			if w.Name == "W6-multikey-atomicity" || w.Name == "W9-many-tables" || w.Name == "W10-multikey-deletes-cascade" || w.Name == "W11-megabyte-multikey" {
				continue
			}
			if w.Name == "W7-large-multikey" {
				o.TornStep = 2500 // 90 KB tails: cut every 2 500 bytes (plus nothing and everything)
				o.Nested = 0
			}
		}
		units = append(units, Unit{Name: fmt.Sprintf("%s/budgets=%v", w.Name, budgets), Weight: len(w.Txns) * len(budgets), Run: func(c *Ctx) {
			crashUnit(c, map[string]string{"C03": "c03", "C04": "c04", "C14": "c14"}[prop], w, budgets, o)
		}})
	}
	return units
}

var crashAssumptions = []string{
	"process-crash model: every completed file-system operation persists, a single write is atomic; directory operations are durable and ordered",
	"torn model (C14): a file loses any suffix of the bytes written after its last fsync; no reordering inside a file, no media corruption",
	"the wall clock is strictly increasing across restarts; the restarted process starts in one of the three order classes of the wal-name comparison",
	"crash = abandon the instance and hand the reconstructed image to a new one (no process is killed); interception at the os boundary, so every file operation is a crash point",
	"schedules: every file-system operation, lock, channel and atomic operation is a scheduling point; deviation bounding",
}

func init() {
	Props["C03"] = &PropMeta{
		Units: func(t string) []Unit { return crashUnits("C03", t) },
		Rule: "for every explored schedule of every crash workload (rotation+flush, L0->L1 compaction, cascade with deletes, multi-key commit straddling a rotation, Close with queued flushes): " +
			"every prefix of the mutation log is a crash image (deduplicated by content + acknowledged set); each is recovered with the real Open under three process-start clock classes, every key read and compared with the acknowledged " +
			"state (per key the in-flight transaction's new value is admitted), one more commit made, closed, reopened and read again; every prefix of the recovery's own mutation log up to the return of Open is crashed again (nested). " +
			"states = distinct images, transitions = file-system mutations, evaluations = recovery runs",
		Assumptions: crashAssumptions,
		QuickS:      150, ThoroughS: 1800,
	}
	Props["C04"] = &PropMeta{
		Units: func(t string) []Unit { return crashUnits("C04", t) },
		Rule: "the crash images of the multi-key workloads (two- and three-key transactions, a commit straddling a memtable rotation), every crash point inside and outside Commit, every explored schedule; " +
			"oracle: the keys of the transaction in flight at the crash read all-new or all-old (a delete of an absent key is not counted), plus the C03 oracle for acknowledged transactions",
		Assumptions: crashAssumptions,
		QuickS:      60, ThoroughS: 1200,
	}
	Props["C14"] = &PropMeta{
		Units: func(t string) []Unit { return crashUnits("C14", t) },
		Rule: "every crash image of the workloads' explored schedules x every truncation (byte granularity) of every file with bytes written after its last fsync (products when two files are dirty at once); " +
			"each recovered with the real Open: Open must succeed, every acknowledged commit must be visible, further commits retained",
		Assumptions: crashAssumptions,
		QuickS:      100, ThoroughS: 1800,
	}
}
