package harness

import (
	"fmt"
	"reflect"
	"sort"
	"strings"
	"unsafe"
)

// implState renders the complete reachable state of an implementation object as a canonical string: every field of
// every struct reachable through pointers, slices, arrays, maps and interfaces, exported or not, with pointers
// replaced by the order in which they are first reached (so two structurally identical object graphs give the same
// string wherever they live). It lets an explicit-state search deduplicate on the IMPLEMENTATION state instead of on
// the observable content: states that differ only in a field nobody has thought of (a stale level counter, a cached
// insertion hint, a link to a node that is no longer in the list) stay different, which a content-based canonical
// form would merge. Merging equal strings is sound: equal object graphs have equal futures.
// Channels, functions and unsafe pointers are rendered by kind only.
func implState(root any) string {
	var out strings.Builder
	ids := map[unsafe.Pointer]int{}
	var walk func(v reflect.Value, b *strings.Builder)
	walk = func(v reflect.Value, b *strings.Builder) {
		switch v.Kind() {
		case reflect.Ptr:
			if v.IsNil() {
				b.WriteString("nil;")
				return
			}
			p := v.UnsafePointer()
			if id, ok := ids[p]; ok {
				fmt.Fprintf(b, "#%d;", id)
				return
			}
			ids[p] = len(ids)
			fmt.Fprintf(b, "&%d{", ids[p])
			walk(v.Elem(), b)
			b.WriteString("}")
		case reflect.Interface:
			if v.IsNil() {
				b.WriteString("nil;")
				return
			}
			walk(v.Elem(), b)
		case reflect.Struct:
			b.WriteString("(")
			for i := 0; i < v.NumField(); i++ {
				walk(v.Field(i), b)
			}
			b.WriteString(")")
		case reflect.Slice:
			if v.IsNil() {
				b.WriteString("nil;")
				return
			}
			fallthrough
		case reflect.Array:
			if v.Type().Elem().Kind() == reflect.Uint8 {
				bs := make([]byte, v.Len())
				for i := range bs {
					bs[i] = byte(v.Index(i).Uint())
				}
				fmt.Fprintf(b, "%q;", bs)
				return
			}
			fmt.Fprintf(b, "[%d:", v.Len())
			for i := 0; i < v.Len(); i++ {
				walk(v.Index(i), b)
			}
			b.WriteString("]")
		case reflect.Map:
			type kv struct {
				k string
				v reflect.Value
			}
			var es []kv
			it := v.MapRange()
			for it.Next() {
				var kb strings.Builder
				walk(it.Key(), &kb)
				es = append(es, kv{kb.String(), it.Value()})
			}
			sort.Slice(es, func(i, j int) bool { return es[i].k < es[j].k })
			b.WriteString("{")
			for _, e := range es {
				b.WriteString(e.k)
				b.WriteString("=>")
				walk(e.v, b)
			}
			b.WriteString("}")
		case reflect.String:
			fmt.Fprintf(b, "%q;", v.String())
		case reflect.Bool:
			fmt.Fprintf(b, "%v;", v.Bool())
		case reflect.Int, reflect.Int8, reflect.Int16, reflect.Int32, reflect.Int64:
			fmt.Fprintf(b, "%d;", v.Int())
		case reflect.Uint, reflect.Uint8, reflect.Uint16, reflect.Uint32, reflect.Uint64, reflect.Uintptr:
			fmt.Fprintf(b, "%d;", v.Uint())
		case reflect.Float32, reflect.Float64:
			fmt.Fprintf(b, "%g;", v.Float())
		default:
			b.WriteString(v.Kind().String() + ";")
		}
	}
	walk(reflect.ValueOf(root), &out)
	return out.String()
}
