package harness

import "fmt"

func c08Alphabet() []seqStep {
	t := func(p txProg) seqStep { return seqStep{Kind: "T", Prog: p} }
	return []seqStep{
		t(txProg{Update: true, Ops: []txOp{{Op: "S", K: "k"}}, End: "C"}),
		t(txProg{Update: true, Ops: []txOp{{Op: "D", K: "k"}}, End: "C"}),
		t(txProg{Update: true, Ops: []txOp{{Op: "S", K: "k!"}, {Op: "S", K: "k@1"}}, End: "C"}),
		// abandoned after writes
		t(txProg{Update: true, Ops: []txOp{{Op: "S", K: "k"}, {Op: "D", K: "k!"}, {Op: "G", K: "k"}}, End: "X"}),
		t(txProg{Update: true, Ops: []txOp{{Op: "D", K: "k"}, {Op: "S", K: "k@1"}}, End: "E"}),
		t(txProg{Update: true, Ops: []txOp{{Op: "S", K: "k"}, {Op: "D", K: "k@1"}}, End: "P"}), // the closure panics, the caller recovers
		{Kind: "CF", K: "k"},
		{Kind: "CF", K: "k!"},
		{Kind: "M", Name: "set-in-readonly"},
		{Kind: "M", Name: "use-after-commit"},
		{Kind: "M", Name: "use-after-successful-commit"},
		{Kind: "M", Name: "empty-key"},
		{Kind: "R", Cfg: 1, Clock: 1, Name: "use-after-close"},
	}
}

func c08Units(tier string) []Unit {
	var units []Unit
	alpha := c08Alphabet()
	type plan struct {
		name    string
		cfgs    []dbCfg
		depth   int
		budgets []int
		eager   bool
	}
	var plans []plan
	if tier == "quick" {
		plans = []plan{
			{"d3/rotate-always", []dbCfg{cfgRotateAlways, cfgSmall}, 3, []int{0}, true},
			{"d3/small", []dbCfg{cfgSmall, cfgRotateAlways}, 3, []int{0}, false},
			{"dev1/d2/rotate-always", []dbCfg{cfgRotateAlways, cfgSmall}, 2, []int{0, 1}, false},
		}
	} else {
		plans = []plan{
			{"d4/rotate-always", []dbCfg{cfgRotateAlways, cfgSmall}, 4, []int{0}, true},
			{"d4/small", []dbCfg{cfgSmall, cfgUnbuffered}, 4, []int{0}, true},
			{"d3/unbuffered", []dbCfg{cfgUnbuffered, cfgMemOnly}, 3, []int{0}, true},
			{"dev1/d3/rotate-always", []dbCfg{cfgRotateAlways, cfgSmall}, 3, []int{0, 1}, false},
			{"dev2/d2/rotate-always", []dbCfg{cfgRotateAlways, cfgSmall}, 2, []int{0, 1, 2}, false},
		}
	}
	for _, pl := range plans {
		for first := range alpha {
			pl, first := pl, first
			for i := range pl.cfgs {
				pl.cfgs[i].L0, pl.cfgs[i].Ratio = pl.cfgs[0].L0, pl.cfgs[0].Ratio
			}
			units = append(units, Unit{Name: fmt.Sprintf("%s/first=%s", pl.name, alpha[first]), Weight: pl.depth*10 + len(pl.budgets)*5, Run: func(c *Ctx) {
				if c.Replay != nil {
					replaySeq(c, "c08")
					return
				}
				enumSeqs(len(alpha), pl.depth-1, func(ix []int) {
					if c.TimeUp() {
						if c.Res.Exhaustive {
							c.Res.Exhaustive = false
							c.Cap("deadline reached before all sequences of this unit were run")
						}
						return
					}
					if len(c.Res.Violations) >= 6 {
						c.Res.Exhaustive = false
						return
					}
					steps := []seqStep{alpha[first]}
					abandoned := alpha[first].Kind != "T" || alpha[first].Prog.End != "C"
					for _, i := range ix {
						steps = append(steps, alpha[i])
						if alpha[i].Kind != "T" || alpha[i].Prog.End != "C" {
							abandoned = true
						}
					}
					if !abandoned {
						return // plain committed sequences are C01's subject
					}
					exploreSeq(c, "c08", pl.cfgs, steps, pl.budgets, pl.eager)
				})
			}})
		}
	}
	units = append(units, c08SchedUnits(tier)...)
	return units
}

func init() {
	Props["C08"] = &PropMeta{
		Units: c08Units,
		Rule: "(plus fine-grained scenarios: a transaction that is refused or discarded next to a long-lived reader that began at the same snapshot, followed by commits with rotation, flush, compaction and version discard; every schedule within the deviation bound; the reader must keep its snapshot and the history must be serializable without the abandoned transactions) every sequence up to the stated depth over {committed Set/Delete/two-key transactions, transaction discarded after writes, Update whose closure fails after writes, " +
			"commit refused with a conflict (reader overtaken by a writer), Set/Delete in a read-only transaction, any call on a finished transaction, empty key, Close + View/Update on the closed handle + reopen} " +
			"containing at least one abandoned or misuse step, with rotation on every entry / small thresholds, background lazy and eager, plus all schedules within the stated deviations for the dev plans; " +
			"exact documented errors are required and after every step all keys are compared with a model that ignores abandoned transactions; non-trivial: a written key read off the active memtable",
		Assumptions: []string{
			"sequentially consistent interleavings at the shims' scheduling points; deviation bounding",
			"abandoned writes are observed through later reads (also after flush, compaction and reopen), not by inspecting files",
		},
		QuickS: 100, ThoroughS: 1200,
	}
}
