package harness

import "fmt"

// c08Scenarios: abandoned transactions (refused with a conflict, discarded after writes) next to other
// transactions that stay open: whatever an abandoned transaction does on its way out must not change
// what anybody else reads, also after the rotations, flushes, compactions and version discard that
// follow. A reader and the transaction to be abandoned begin at the same snapshot (staged prefix), a
// writer then overwrites what they read; the abandoned transaction ends concurrently with more commits,
// and the reader reads again when everything else is done ("Q").
func c08Scenarios() []txnScen {
	init := []txProg{rw("C", "wx", "wy"), rw("C", "wy")}
	tail := []txOp{{Op: "Q"}, {Op: "G", K: "x"}, {Op: "G", K: scenKey("y")}}
	// two-key commits: table key ranges are ranges of VERSIONED keys, so tables holding only newer versions of one key
	// do not overlap the table with its older version and are never merged with it; tables spanning x..y are
	// Commits that span a..y: a compaction only merges tables whose VERSIONED key ranges overlap, and [x@5..x@5] does not
	// overlap [x@1..] (x@5 sorts before x@1); a table [a@5 .. z@5] does (the end key must also be the largest as a raw string, see boundary()), so old and new versions of x meet and version
	// discard has something to decide.
	writers := []txProg{rw("C", "wa", "wx", "wz"), rw("C", "wa", "wx", "wy", "wz"), rw("C", "wa", "wx", "dy", "wz"), rw("C", "wa", "wx", "wz")}
	reader := stagedTxn{Prog: ro("rx"), Defer: true, Tail: tail}
	overwrite := stagedTxn{Prog: rw("C", "wx")}
	return []txnScen{
		{Name: "A1-refused-next-to-long-reader", Init: init, Threads: [][]txProg{writers},
			Staged: []stagedTxn{reader, {Prog: rw("C", "rx", "wy"), Defer: true}, overwrite}},
		{Name: "A2-discarded-writer-next-to-long-reader", Init: init, Threads: [][]txProg{writers},
			Staged: []stagedTxn{reader, {Prog: rw("X", "rx", "wx", "dy"), Defer: true}, overwrite}},
		{Name: "A3-refused-and-discarded-next-to-updating-reader", Init: init, Threads: [][]txProg{writers[:3]},
			Staged: []stagedTxn{{Prog: rw("C", "ry"), Defer: true, Tail: append(append([]txOp{}, tail...), txOp{Op: "S", K: "z"})},
				{Prog: rw("C", "rx", "wy"), Defer: true}, {Prog: rw("X", "wx"), Defer: true}, overwrite}},
		{Name: "A4-reader-next-to-committing-writer", Init: init, Threads: [][]txProg{writers},
			Staged: []stagedTxn{reader, {Prog: rw("C", "ry", "wy"), Defer: true}, overwrite}},
	}
}

func c08SchedUnits(tier string) []Unit {
	var units []Unit
	type plan struct {
		cfg     dbCfg
		name    string
		budgets []int
	}
	plans := []plan{{cfgTxnRotate, "rotate-always", []int{0, 1}}, {cfgTxnQueue2, "queue=2", []int{0, 1}}}
	if tier == "thorough" {
		plans = []plan{{cfgTxnRotate, "rotate-always", []int{0, 1, 2}}, {cfgTxnQueue2, "queue=2", []int{0, 1, 2}}, {cfgTxnUnbuf, "unbuffered", []int{0, 1, 2}}}
	}
	for _, sc := range c08Scenarios() {
		for _, pl := range plans {
			sc, pl := sc, pl
			sc.Cfg = pl.cfg
			sc.Keys = append(append([]string{}, txnKeys...), "z")
			sc.FreezeEpilogue = true
			units = append(units, Unit{Name: fmt.Sprintf("sched/%s/%s/budgets=%v", sc.Name, pl.name, pl.budgets), Weight: 12, Run: func(c *Ctx) {
				exploreTxn(c, sc, pl.budgets, 1, 0, oracleC08)
			}})
		}
	}
	return units
}

// oracleC08: nobody's reads are affected by an abandoned transaction: every transaction reads from one
// snapshot (C05's oracle, in which abandoned transactions are not writers) and the history is serializable
// without them.
func oracleC08(o *txnObs) error {
	if err := checkSnapshots(o.hist, o.init, modeSnapshot); err != nil {
		return oerr("c08/abandoned-transaction-left-a-trace/snapshot", "%v\nhistory:\n      %s", err, o.hist)
	}
	if err, _ := checkSerializable(o.hist, o.init); err != nil {
		return oerr("c08/abandoned-transaction-left-a-trace/serial", "%v\nhistory:\n      %s", err, o.hist)
	}
	return nil
}
