package harness

import (
	"fmt"
	"sort"
	"strings"
	"time"

	"github.com/B1NARY-GR0UP/originium"

	"verif/shim/vos"
	"verif/shim/vsync"
	"verif/shim/vtime"
	"verif/vsched"
)

// crashWorkload: transactions committed one after the other by one goroutine on a DB with tiny
// thresholds, optionally followed by Close. Values are unique per write so that the oracle can
// tell which transaction a read value came from.
type crashWorkload struct {
	Name  string
	Cfg   dbCfg
	Txns  []txProg
	Close bool
	// Par: groups of transaction indices committed by concurrent goroutines (each group in order) after the
	// transactions that are in no group have been committed one after the other. Groups write disjoint keys,
	// so the acknowledged state does not depend on the commit order the schedule picks.
	Par [][]int
}

func wtx(ops ...string) txProg {
	p := txProg{Update: true, End: "C"}
	for _, o := range ops {
		switch o[0] {
		case 'S':
			p.Ops = append(p.Ops, txOp{Op: "S", K: o[1:]})
		case 'D':
			p.Ops = append(p.Ops, txOp{Op: "D", K: o[1:]})
		}
	}
	return p
}

var crashKeys = []string{"a", "b", "c", "d", "A", "B", "C"}

// keys in upper case carry large values
func crashBig(k string) bool { return k >= "A" && k <= "Z" }

// the keys read back after a recovery: the common alphabet plus whatever else the workload writes
func crashKeysOf(w crashWorkload) []string {
	ks := append([]string{}, crashKeys...)
	seen := map[string]bool{}
	for _, k := range ks {
		seen[k] = true
	}
	for _, t := range w.Txns {
		for _, o := range t.Ops {
			if !seen[o.K] {
				seen[o.K] = true
				ks = append(ks, o.K)
			}
		}
	}
	return ks
}

func crashWorkloads() []crashWorkload {
	return []crashWorkload{
		{"W1-rotation-flush", dbCfg{Mem: 70, Imm: 1, Block: 30, L0: 2, Ratio: 2, SL: 2},
			[]txProg{wtx("Sa"), wtx("Sb"), wtx("Sa", "Sc"), wtx("Db"), wtx("Sc"), wtx("Sd")}, true, nil},
		{"W2-l0-l1-compaction", dbCfg{Mem: 1, Imm: 1, Block: 1, L0: 1, Ratio: 2, SL: 1},
			[]txProg{wtx("Sa"), wtx("Sb"), wtx("Sa"), wtx("Da"), wtx("Sc")}, true, nil},
		{"W3-cascade-deletes", dbCfg{Mem: 1, Imm: 1, Block: 4096, L0: 1, Ratio: 1, SL: 2},
			[]txProg{wtx("Sa"), wtx("Sd"), wtx("Da"), wtx("Sb"), wtx("Sa"), wtx("Dd")}, false, nil},
		{"W4-multikey-straddles-rotation", dbCfg{Mem: 70, Imm: 1, Block: 4096, L0: 2, Ratio: 2, SL: 1},
			[]txProg{wtx("Sa"), wtx("Sb", "Sc", "Sd"), wtx("Sa", "Db", "Sc"), wtx("Sd", "Sa")}, true, nil},
		{"W5-close-with-queued-flushes", dbCfg{Mem: 1, Imm: 2, Block: 30, L0: 2, Ratio: 2, SL: 1},
			[]txProg{wtx("Sa"), wtx("Sb"), wtx("Sa", "Sc")}, true, nil},
		{"W6-multikey-atomicity", dbCfg{Mem: 200, Imm: 1, Block: 4096, L0: 2, Ratio: 2, SL: 1},
			[]txProg{wtx("Sa", "Sb"), wtx("Sa", "Sb", "Sc"), wtx("Da", "Sb", "Sd"), wtx("Sc", "Sd")}, true, nil},
		// large values (crashBig marks keys whose values are 30 000 bytes, 65 535 for key A): a transaction of more than 64 KiB
		{"W7-large-multikey", dbCfg{Mem: 100000, Imm: 1, Block: 4096, L0: 2, Ratio: 2, SL: 1},
			[]txProg{wtx("Sa", "Sb", "Sc", "Sd"), wtx("SA", "SB", "SC", "Sd"), wtx("Sa", "DB", "SC"), wtx("SA")}, true, nil},
		// one table per commit and no compaction: twelve tables in L0 (indices with one and two digits) at the crash
		{"W9-many-tables", dbCfg{Mem: 1, Imm: 1, Block: 4096, L0: 14, Ratio: 2, SL: 1},
			[]txProg{wtx("Sa"), wtx("Sb"), wtx("Sc"), wtx("Sd"), wtx("Sa"), wtx("Db"), wtx("Sc"), wtx("Sd"), wtx("Sa"), wtx("Sb"), wtx("Sc"), wtx("Dd")}, false, nil},
		// multi-key transactions with deletes of keys whose old versions sit in deeper levels, a compaction on every flush
		// (one table per commit, L0 holds one: a table moves down when the next one arrives, by then the read watermark has
		// passed its commit; the tombstone of a meets the old a in L1, the deepest level, two commits later)
		{"W10-multikey-deletes-cascade", dbCfg{Mem: 1, Imm: 1, Block: 4096, L0: 1, Ratio: 4, SL: 2},
			[]txProg{wtx("Sa", "Sb"), wtx("Sd"), wtx("Da", "Sb"), wtx("Sd"), wtx("Sc"), wtx("Sa", "Dd")}, false, nil},
		// one transaction above 1 MiB of wal records (23 keys, 22 of them with 60 000-byte values: keys E..Z), so that any
		// staging threshold of the write path below that size is crossed inside a single commit
		{"W11-megabyte-multikey", dbCfg{Mem: 100000, Imm: 1, Block: 4096, L0: 2, Ratio: 2, SL: 1},
			[]txProg{wtx("Sa", "Sb"), wtx("SE", "SF", "SG", "SH", "SI", "SJ", "SK", "SL", "SM", "SN", "SO", "SP", "SQ", "SR", "SS", "ST", "SU", "SV", "SW", "SX", "SY", "SZ", "Sa"), wtx("Sb")}, true, nil},
		// two goroutines commit multi-key transactions on disjoint keys at the same time, with rotation
		{"W8-two-committers", dbCfg{Mem: 70, Imm: 1, Block: 4096, L0: 2, Ratio: 2, SL: 1},
			[]txProg{wtx("Sa", "Sc"), wtx("Sa", "Sb"), wtx("Db", "Sa"), wtx("Sc", "Sd"), wtx("Dc", "Sd")}, true, [][]int{{1, 2}, {3, 4}}},
	}
}

// concrete writes of workload transaction i (values assigned deterministically)
func crashWrites(w crashWorkload, i int) map[string]*string {
	m := map[string]*string{}
	for j, o := range w.Txns[i].Ops {
		switch o.Op {
		case "S":
			v := fmt.Sprintf("t%d.%d", i, j)
			if crashBig(o.K) {
				n := 30000
				if o.K == "A" {
					n = 65535 - len(v) // the largest value the engine accepts: its wal record exceeds 64 KiB
				}
				if o.K >= "E" {
					n = 60000
				}
				v += strings.Repeat("x", n)
			}
			m[o.K] = &v
		case "D":
			m[o.K] = nil
		}
	}
	return m
}

// ---------------------------------------------------------------- phase 1: the workload run

type crashRun struct {
	log   []vos.Op
	endNs time.Time
}

// crashScenario runs the workload with every file-system operation as a scheduling point and
// hands the mutation log to analyse when the execution is complete.
func crashScenario(w crashWorkload, analyse func(run crashRun, res vsched.Result) error) vsched.Scenario {
	return func() (func(), func(*vsched.Exec), func(vsched.Result) error) {
		var fs *vos.FS
		var end time.Time
		main := func() {
			fs = vos.CurFS()
			vsched.Freeze()
			db, err := originium.Open("/d", w.Cfg.config())
			vsched.Thaw()
			if err != nil {
				panic(err)
			}
			fs.Points = true
			inPar := map[int]bool{}
			for _, g := range w.Par {
				for _, i := range g {
					inPar[i] = true
				}
			}
			commit := func(i int) {
				wr := crashWrites(w, i)
				vos.MarkEvent(fmt.Sprintf("call %d", i))
				err := db.Update(func(tx *originium.Txn) error {
					for _, o := range w.Txns[i].Ops {
						if v := wr[o.K]; v != nil {
							tx.Set(o.K, []byte(*v))
						} else {
							tx.Delete(o.K)
						}
					}
					return nil
				})
				if err != nil {
					panic(fmt.Sprintf("workload commit %d failed: %v", i, err))
				}
				vos.MarkEvent(fmt.Sprintf("ack %d", i))
			}
			for i := range w.Txns {
				if !inPar[i] {
					commit(i)
				}
			}
			if len(w.Par) > 0 {
				var wg vsync.WaitGroup
				for gi, g := range w.Par {
					g := g
					wg.Add(1)
					vsched.GoUser(fmt.Sprintf("committer%d", gi), func() {
						defer wg.Done()
						for _, i := range g {
							commit(i)
						}
					})
				}
				wg.Wait()
			}
			if w.Close {
				vos.MarkEvent("close-call")
				db.Close()
				vos.MarkEvent("closed")
			} else {
				vsched.WaitQuiescent()
			}
			end = vtime.Now()
		}
		check := func(res vsched.Result) error {
			if err := StdCheck(res); err != nil {
				oe := err.(*OracleErr)
				return oerr("workload/"+oe.Sig, "workload %s: %s", w.Name, oe.Detail)
			}
			return analyse(crashRun{log: fs.Log, endNs: end}, res)
		}
		return main, nil, check
	}
}

// ---------------------------------------------------------------- phase 2: recovery of one image

type crashExpect struct {
	acked    kvState              // state after the acknowledged transactions
	inflight []map[string]*string // writes of transactions called but not returned
	everSet  map[string]bool      // every value ever written by a begun transaction
}

type recoverOut struct {
	reads map[string]string // key -> value ("" + found=false encoded as absent)
	found map[string]bool
	log   []vos.Op
	err   error // violation
	openK int   // log index at which Open had returned
}

// setClock puts the new process into one of the three order classes of the wal-name comparison.
func setRecoveryClock(prev time.Time, class int) {
	switch class {
	case 1: // same second, one more digit of nanoseconds
		ns := prev.Nanosecond()
		d := 10
		for d <= ns {
			d *= 10
		}
		vtime.Set(prev.Truncate(time.Second).Add(time.Duration(d + 1))) // e.g. 1001 after 110: smaller as a string, larger as a number
	case 2: // next second, fewer digits
		vtime.Set(prev.Truncate(time.Second).Add(time.Second + 5))
	default:
		vtime.Set(prev.Add(3))
	}
}

// recoverImage runs the real Open on a copy of img in a fresh execution, reads every key,
// commits one more transaction, closes, reopens and reads again.
func recoverImage(img *vos.FS, cfg dbCfg, prev time.Time, class int, exp crashExpect, atomicity bool, w crashWorkload, crashedIn int, idleClose bool) recoverOut {
	out := recoverOut{reads: map[string]string{}, found: map[string]bool{}}
	var fs *vos.FS
	fail := func(sig, f string, a ...any) {
		if out.err == nil {
			out.err = oerr(sig, f, a...)
		}
	}
	res := vsched.Run(vsched.Default{}, vsched.RunOpts{MaxSteps: 300000}, func() {
		fs = img.Clone()
		vos.SetFS(fs)
		setRecoveryClock(prev, class)
		db, err := originium.Open("/d", cfg.config())
		if err != nil {
			fail("open-error", "Open on the crashed directory returned %v", err)
			return
		}
		vos.MarkEvent("open-returned")
		readAll := func(stage string, extra kvState) bool {
			ok := true
			db.View(func(tx *originium.Txn) error {
				for _, k := range append(crashKeysOf(w), "never") {
					v, f := tx.Get(k)
					if stage == "recovered" {
						out.found[k] = f
						out.reads[k] = string(v)
					}
					want, wok := exp.acked[k]
					if ev, has := extra[k]; has {
						want, wok = ev, true
					}
					if f == wok && (!f || string(v) == want) {
						continue
					}
					// per key: the new value of a transaction that was in flight at the crash is admitted
					adm := false
					if _, has := extra[k]; !has {
						for _, inf := range exp.inflight {
							if nv, touched := inf[k]; touched {
								if (nv == nil && !f) || (nv != nil && f && string(v) == *nv) {
									adm = true
								}
							}
						}
					}
					if adm {
						continue
					}
					kind := "wrong-value"
					switch {
					case wok && !f:
						kind = "lost-acknowledged-write"
					case !wok && f:
						kind = "resurrected-or-unacknowledged"
					}
					if f && !exp.everSet[string(v)] && string(v) != "post" {
						kind = "never-written-value"
					}
					fail("crash/"+kind+"/"+stage, "key %q reads (%q,%v) after recovery, acknowledged state says (%q,%v)", k, v, f, want, wok)
					ok = false
					return nil
				}
				return nil
			})
			return ok
		}
		if !readAll("recovered", nil) {
			return
		}
		if idleClose {
			// second mode of a recovery run: the recovered store is closed again without a single write and must
			// still hold everything (the first mode goes on writing to the recovered instance as it is)
			db.Close()
			vos.MarkEvent("idle-closed")
			setRecoveryClock(vtime.Now(), (class+1)%3)
			db, err = originium.Open("/d", cfg.config())
			if err != nil {
				fail("open-error", "Open after recovery + Close without writes returned %v", err)
				return
			}
			if !readAll("after-idle-close-reopen", nil) {
				return
			}
		}
		if atomicity {
			for ti, inf := range exp.inflight {
				nNew, nTot := 0, 0
				var detail []string
				for k, nv := range inf {
					nTot++
					isNew := (nv == nil && !out.found[k]) || (nv != nil && out.found[k] && out.reads[k] == *nv)
					// a delete of a key that was absent anyway cannot be told apart: count as "old or new"
					if nv == nil {
						if _, was := exp.acked[k]; !was {
							nTot--
							continue
						}
					}
					if isNew {
						nNew++
					}
					detail = append(detail, fmt.Sprintf("%s:new=%v", k, isNew))
				}
				if nNew != 0 && nNew != nTot {
					sort.Strings(detail)
					fail(fmt.Sprintf("crash/partial-commit/keys=%d", nTot), "the transaction in flight at the crash (#%d of %s) is applied partially: %v", crashedIn, w.Name, detail)
					_ = ti
					return
				}
			}
		}
		// the recovered store accepts and retains further commits
		vos.MarkEvent("post-call")
		if err := db.Update(func(tx *originium.Txn) error { return tx.Set("a", []byte("post")) }); err != nil {
			fail("crash/post-commit-error", "commit after recovery returned %v", err)
			return
		}
		vos.MarkEvent("post-ack")
		if !readAll("after-post-commit", kvState{"a": "post"}) {
			return
		}
		// the process may die again right here, without Close: the image at this moment must recover as well
		// (checked below, after the clean Close/reopen path)
		postCrash := fs.Clone()
		db.Close()
		vos.MarkEvent("post-closed")
		setRecoveryClock(vtime.Now(), (class+1)%3)
		db, err = originium.Open("/d", cfg.config())
		if err != nil {
			fail("open-error", "second Open returned %v", err)
			return
		}
		if !readAll("after-post-reopen", kvState{"a": "post"}) {
			return
		}
		db.Close()
		vos.MarkEvent("post-crash-image")
		fs2 := postCrash
		vos.SetFS(fs2)
		setRecoveryClock(vtime.Now(), (class+2)%3)
		db, err = originium.Open("/d", cfg.config())
		if err != nil {
			fail("open-error", "Open after a second crash (right after the first commit of the recovered store) returned %v", err)
			return
		}
		if !readAll("after-post-commit-crash", kvState{"a": "post"}) {
			return
		}
		db.Close()
	})
	if fs != nil {
		out.log = fs.Log
		for i, op := range out.log {
			if op.Kind == "mark" && op.Mark == "open-returned" {
				out.openK = i
			}
		}
	}
	if out.err == nil {
		if len(res.Panics) > 0 {
			first := strings.SplitN(res.Panics[0], "\n", 2)[0]
			stage := "open"
			if out.openK > 0 {
				stage = "after-open"
			}
			out.err = oerr("crash/"+stage+"-panic/"+panicSite(res.Panics[0]), "%s\n%s", first, res.Panics[0])
		} else if res.Deadlock {
			out.err = oerr("crash/recovery-deadlock", "%v", res.Blocked)
		} else if res.Horizon {
			out.err = oerr("crash/recovery-horizon", "recovery did not finish within the step horizon")
		}
	}
	return out
}

// ---------------------------------------------------------------- crash-point enumeration

type crashOpts struct {
	Clocks    []int
	Atomicity bool // C04 oracle on the in-flight transaction
	Torn      bool // C14: every truncation of every unsynced tail
	TornStep  int  // byte granularity of cuts (1 = every position)
	Nested    int  // crash again during recovery: depth
}

type crashStats struct {
	images, distinct, recoveries, mutations, torn, nested int
}

type crashDedup map[uint64]bool

func describeOp(op vos.Op) string {
	switch op.Kind {
	case "mark":
		return "[" + op.Mark + "]"
	case "write":
		return fmt.Sprintf("write(%s,+%d)", shortPath(op.Path), len(op.Data))
	case "rename":
		return fmt.Sprintf("rename(%s->%s)", shortPath(op.Path), shortPath(op.To))
	}
	return fmt.Sprintf("%s(%s)", op.Kind, shortPath(op.Path))
}

func shortPath(p string) string {
	p = strings.TrimPrefix(p, "/d/")
	if strings.HasPrefix(p, "wal-") {
		return "wal"
	}
	return p
}

// crashPointClass names a crash point by the operations around it (stable across schedules).
func crashPointClass(log []vos.Op, k int) string {
	prev, next := "start", "end"
	for i := k - 1; i >= 0; i-- {
		if log[i].Kind != "mark" {
			prev = describeKind(log[i])
			break
		}
	}
	for i := k; i < len(log); i++ {
		if log[i].Kind != "mark" {
			next = describeKind(log[i])
			break
		}
	}
	return "after=" + prev + "/before=" + next
}

func describeKind(op vos.Op) string {
	p := shortPath(op.Path)
	if strings.HasSuffix(p, ".db") {
		p = "L" + strings.SplitN(p, "-", 2)[0] + "-table"
	}
	return op.Kind + "(" + p + ")"
}

// analyseCrashes enumerates every crash point of one workload run.
func analyseCrashes(c *Ctx, w crashWorkload, run crashRun, o crashOpts, dd crashDedup, st *crashStats) error {
	log := run.log
	ever := map[string]bool{}
	for i := range w.Txns {
		for _, v := range crashWrites(w, i) {
			if v != nil {
				ever[*v] = true
			}
		}
	}
	for k := 0; k <= len(log); k++ {
		if k < len(log) && log[k].Kind == "mark" {
			// a crash point is "between two file-system operations"; marks delimit which calls had returned
		}
		if k > 0 && log[k-1].Kind != "mark" {
			st.mutations++
		}
		// the same image with the same acknowledged set is reached for k right after a mark and right before it
		if k > 0 && k < len(log) && log[k-1].Kind == "mark" && false {
			continue
		}
		exp := crashExpect{acked: kvState{}, everSet: ever}
		called := map[int]bool{}
		for _, op := range log[:k] {
			if op.Kind != "mark" {
				continue
			}
			var i int
			if n, _ := fmt.Sscanf(op.Mark, "ack %d", &i); n == 1 {
				exp.acked.apply(crashWrites(w, i))
				delete(called, i)
			} else if n, _ := fmt.Sscanf(op.Mark, "call %d", &i); n == 1 {
				called[i] = true
			}
		}
		var infl []int
		for i := range called {
			infl = append(infl, i)
		}
		sort.Ints(infl)
		inflight := -1
		for _, i := range infl {
			exp.inflight = append(exp.inflight, crashWrites(w, i))
			inflight = i
		}
		img := vos.Image(log, k)
		st.images++
		variants := []*vos.FS{img}
		tornDesc := []string{""}
		if o.Torn {
			paths, tails := img.Dirty()
			if len(paths) > 0 {
				variants, tornDesc = nil, nil
				// product over dirty files of every cut length (0 = nothing lost)
				var rec func(i int, cur *vos.FS, desc string)
				rec = func(i int, cur *vos.FS, desc string) {
					if i == len(paths) {
						variants = append(variants, cur)
						tornDesc = append(tornDesc, desc)
						return
					}
					step := o.TornStep
					if step <= 0 {
						step = 1
					}
					for cut := 0; cut <= tails[i]; cut += step {
						n := cur
						d := desc
						if cut > 0 {
							n = cur.Clone()
							n.Cut(paths[i], cut)
							d += fmt.Sprintf(" %s-%dB", shortPath(paths[i]), cut)
						}
						rec(i+1, n, d)
						if cut < tails[i] && cut+step > tails[i] {
							cut = tails[i] - step // always include the full cut
						}
					}
				}
				rec(0, img, "")
			}
		}
		for vi, v := range variants {
			h := v.Hash()
			h = vsched.Mix(h, vsched.HashString(fmt.Sprint(exp.acked, infl)))
			if dd[h] {
				continue
			}
			dd[h] = true
			st.distinct++
			if vi > 0 || tornDesc[vi] != "" {
				st.torn++
			}
			for _, cl := range o.Clocks {
				if c.TimeUp() {
					return nil
				}
				r := recoverImage(v, w.Cfg, run.endNs, cl, exp, o.Atomicity, w, inflight, false)
				if r.err == nil && cl == o.Clocks[0] {
					// the same image once more, closed and reopened without writes before the rest of the run
					r2 := recoverImage(v, w.Cfg, run.endNs, cl, exp, o.Atomicity, w, inflight, true)
					st.recoveries++
					if r2.err != nil {
						r.err = r2.err
					}
				}
				st.recoveries++
				if r.err != nil {
					oe := r.err.(*OracleErr)
					where := crashPointClass(log, k)
					torn := ""
					if tornDesc[vi] != "" {
						torn = "/torn"
					}
					return oerr(oe.Sig+torn+"/"+where+fmt.Sprintf("/clock%d", cl),
						"workload %s, crash at log position %d (%s)%s, recovery clock class %d, acknowledged state %v, in flight %v:\n%s\nfiles in the image: %v\nlast operations before the crash: %s",
						w.Name, k, where, tornDesc[vi], cl, exp.acked, infl, oe.Detail, v.Names(), tailOps(log, k, 8))
				}
				// crash again during recovery (from the untorn image only when tails are being cut: the product is covered
				// by cutting the tails of the nested image coarsely - nothing, half, everything unsynced)
				if o.Nested > 0 && cl == o.Clocks[0] && vi == 0 {
					base := v
					for k2 := 1; k2 <= r.openK && k2 < len(r.log); k2++ {
						if r.log[k2-1].Kind == "mark" {
							continue
						}
						img2 := vos.ImageFrom(base, r.log, k2)
						nested := []*vos.FS{img2}
						ndesc := []string{""}
						if o.Torn {
							paths, tails := img2.Dirty()
							for i, p := range paths {
								for _, cut := range []int{tails[i], (tails[i] + 1) / 2} {
									if cut == 0 {
										continue
									}
									n := img2.Clone()
									n.Cut(p, cut)
									nested = append(nested, n)
									ndesc = append(ndesc, fmt.Sprintf(" %s-%dB", shortPath(p), cut))
								}
							}
						}
						for ni, n2 := range nested {
							h2 := vsched.Mix(n2.Hash(), vsched.HashString(fmt.Sprint(exp.acked, infl, "n")))
							if dd[h2] {
								continue
							}
							dd[h2] = true
							st.nested++
							st.distinct++
							r2 := recoverImage(n2, w.Cfg, run.endNs.Add(time.Second), (cl+1)%3, exp, o.Atomicity, w, inflight, false)
							st.recoveries++
							if r2.err != nil {
								oe := r2.err.(*OracleErr)
								torn := ""
								if ndesc[ni] != "" {
									torn = "/torn"
								}
								return oerr(oe.Sig+"/nested"+torn+"/"+crashPointClass(r.log, k2),
									"workload %s, crash at log position %d (%s), second crash during recovery at its log position %d (%s)%s, acknowledged state %v:\n%s\nfiles: %v\nrecovery operations before the second crash: %s",
									w.Name, k, crashPointClass(log, k), k2, crashPointClass(r.log, k2), ndesc[ni], exp.acked, oe.Detail, n2.Names(), tailOps(r.log, k2, 8))
							}
						}
					}
				}
			}
		}
	}
	return nil
}

func tailOps(log []vos.Op, k, n int) string {
	var p []string
	for i := max(0, k-n); i < k; i++ {
		p = append(p, describeOp(log[i]))
	}
	return strings.Join(p, " ")
}

// crashUnit explores the schedules of one workload and enumerates the crash points of each.
func crashUnit(c *Ctx, prop string, w crashWorkload, budgets []int, o crashOpts) {
	dd := crashDedup{}
	var st crashStats
	sc := crashScenario(w, func(run crashRun, res vsched.Result) error {
		return analyseCrashes(c, w, run, o, dd, &st)
	})
	ExploreSched(c, sc, SchedOpts{Delay: true, Budgets: budgets, MaxEnv: 1, EnvKinds: dbEnvKinds, MaxSteps: 300000, NoCache: true,
		Sample: func() any {
			return map[string]any{"workload": w.Name, "config": w.Cfg.String(), "crash_points_so_far": st.images, "distinct_images_so_far": st.distinct}
		}})
	for i := range c.Res.Violations {
		c.Res.Violations[i].Sig = prop + "/" + strings.TrimPrefix(c.Res.Violations[i].Sig, prop+"/")
	}
	c.Res.States += int64(st.distinct)
	c.Res.Transitions += int64(st.mutations)
	c.Res.Evaluations += int64(st.recoveries)
	c.SetInfo("crash_points", st.images)
	c.SetInfo("distinct_images", st.distinct)
	c.SetInfo("torn_images", st.torn)
	c.SetInfo("nested_images", st.nested)
	c.SetInfo("recoveries", st.recoveries)
	for h := range dd {
		c.NTHash(h)
	}
}
