package harness

import (
	"fmt"
	"sort"
	"strconv"
	"strings"

	"github.com/B1NARY-GR0UP/originium/pkg/skiplist"
	"github.com/B1NARY-GR0UP/originium/types"

	"verif/shim/vrand"
)

// slOp is one skiplist operation; H is the tower height the random source yields if the
// operation inserts a new element.
type slOp struct {
	Kind string // S (Set) or D (Delete)
	K    string // versioned key
	V    string
	Tomb bool
	H    int
}

func (o slOp) String() string {
	if o.Kind == "D" {
		return "Delete(" + o.K + ")"
	}
	t := ""
	if o.Tomb {
		t = "†"
	}
	return fmt.Sprintf("Set(%s%s=%q,h%d)", o.K, t, o.V, o.H)
}

type slEnt struct {
	K    string
	V    string
	Tomb bool
	H    int
}

// order of versioned keys, computed independently of types.CompareKeys
func splitVK(k string) (string, uint64) {
	i := strings.LastIndex(k, "@")
	ts, _ := strconv.ParseUint(k[i+1:], 10, 64)
	return k[:i], ts
}

func vkLess(a, b string) bool {
	ka, ta := splitVK(a)
	kb, tb := splitVK(b)
	if ka != kb {
		return ka < kb
	}
	return ta > tb
}

type slModel struct{ ents []slEnt } // sorted

func (m *slModel) find(k string) int {
	return sort.Search(len(m.ents), func(i int) bool { return !vkLess(m.ents[i].K, k) })
}

func (m *slModel) apply(o slOp) {
	i := m.find(o.K)
	present := i < len(m.ents) && m.ents[i].K == o.K
	switch o.Kind {
	case "S":
		if present {
			m.ents[i].V, m.ents[i].Tomb = o.V, o.Tomb
		} else {
			m.ents = append(m.ents, slEnt{})
			copy(m.ents[i+1:], m.ents[i:])
			m.ents[i] = slEnt{o.K, o.V, o.Tomb, o.H}
		}
	case "D":
		if present {
			m.ents = append(m.ents[:i], m.ents[i+1:]...)
		}
	}
}

func (m *slModel) key() string {
	var b strings.Builder
	for _, e := range m.ents {
		fmt.Fprintf(&b, "%s=%s/%v/h%d;", e.K, e.V, e.Tomb, e.H)
	}
	return b.String()
}

func slSame(e types.Entry, m slEnt) bool {
	_, ts := splitVK(m.K)
	return e.Key == m.K && string(e.Value) == m.V && e.Tombstone == m.Tomb && e.Version == int64(ts)
}

func slList(es []types.Entry) string {
	var p []string
	for _, e := range es {
		p = append(p, fmtEntry(e, true))
	}
	return "[" + strings.Join(p, " ") + "]"
}

// slRun replays ops on a fresh skiplist (tower heights scripted through the rand shim) and
// compares every query with the model after the last operation.
func slRun(maxLevel int, p float64, ops []slOp, probes []string) (m *slModel, err error) {
	err = guard("c17", func() error {
		var e error
		m, e = slRunRaw(maxLevel, p, ops, probes)
		return e
	})
	if oe, ok := err.(*OracleErr); ok && strings.Contains(oe.Sig, "/panic/") {
		oe.Detail = fmt.Sprintf("maxLevel=%d, after %v: %s", maxLevel, ops, oe.Detail)
	}
	return m, err
}

func slRunRaw(maxLevel int, p float64, ops []slOp, probes []string) (*slModel, error) {
	return slRunKeep(maxLevel, p, ops, probes, nil)
}

// slRunKeep is slRunRaw that also hands out the list it built (for the implementation-state search).
func slRunKeep(maxLevel int, p float64, ops []slOp, probes []string, keep **skiplist.SkipList) (*slModel, error) {
	grows := 0
	vrand.Script = func() float64 {
		if grows > 0 {
			grows--
			return 0.0
		}
		return 0.9999999
	}
	defer func() { vrand.Script = nil }()
	sl := skiplist.New(maxLevel, p)
	if keep != nil {
		*keep = sl
	}
	m := &slModel{}
	for _, o := range ops {
		switch o.Kind {
		case "S":
			grows = o.H - 1
			_, ts := splitVK(o.K)
			sl.Set(types.Entry{Key: o.K, Value: []byte(o.V), Tombstone: o.Tomb, Version: int64(ts)})
			grows = 0
		case "D":
			i := m.find(o.K)
			present := i < len(m.ents) && m.ents[i].K == o.K
			if got := sl.Delete(o.K); got != present {
				return m, oerr("c17/delete-result", "after %v: Delete(%s) returned %v, want %v", ops, o.K, got, present)
			}
		}
		if o.H > maxLevel {
			o.H = maxLevel // H = maxLevel+1: the random source would go on growing the tower at the cap
		}
		m.apply(o)
	}
	// All
	all := sl.All()
	if len(all) != len(m.ents) {
		return m, oerr("c17/all", "after %v: All() = %s, model has %d entries %s", ops, slList(all), len(m.ents), m.key())
	}
	for i := range all {
		if !slSame(all[i], m.ents[i]) {
			return m, oerr("c17/all", "after %v: All() = %s, model %s", ops, slList(all), m.key())
		}
	}
	for _, k := range probes {
		i := m.find(k)
		present := i < len(m.ents) && m.ents[i].K == k
		// Get
		e, ok := sl.Get(k)
		if ok != present || (ok && !slSame(e, m.ents[i])) {
			return m, oerr("c17/get", "after %v: Get(%s) = %s, model %s", ops, k, fmtEntry(e, ok), m.key())
		}
		// LowerBound
		e, ok = sl.LowerBound(k)
		if ok != (i < len(m.ents)) || (ok && !slSame(e, m.ents[i])) {
			return m, oerr("c17/lowerbound", "after %v: LowerBound(%s) = %s, model %s", ops, k, fmtEntry(e, ok), m.key())
		}
		// Scan [k, end)
		for _, end := range probes {
			j := m.find(end)
			got := sl.Scan(k, end)
			want := 0
			if j > i {
				want = j - i
			}
			bad := len(got) != want
			for x := 0; !bad && x < want; x++ {
				bad = !slSame(got[x], m.ents[i+x])
			}
			if bad {
				return m, oerr("c17/scan", "after %v: Scan(%s, %s) = %s, model %s", ops, k, end, slList(got), m.key())
			}
		}
	}
	return m, nil
}

func c17Units(tier string) []Unit {
	type cfg struct {
		keys   []string
		tss    []uint64
		depth  int
		levels []int
	}
	var cfgs []cfg
	if tier == "quick" {
		cfgs = []cfg{
			{[]string{"a", "a!"}, []uint64{1, 2, 10}, 4, []int{1, 2, 3}},
			// a user key that contains the version separator and has another user key as its prefix before it
			{[]string{"a", "a@1"}, []uint64{1, 10}, 3, []int{1, 2}},
			// versions on both sides of 2^63 and the largest one (the "newest version" probe uses it)
			{[]string{"k", "m"}, []uint64{7, 1<<63 - 1, 1 << 63, 1<<64 - 1}, 3, []int{2}},
		}
	} else {
		cfgs = []cfg{
			{[]string{"a", "a!", "b"}, []uint64{1, 2, 10}, 5, []int{1, 2, 3}},
			{[]string{"a", "a@1"}, []uint64{1, 10}, 6, []int{2, 4}},
		}
	}
	var units []Unit
	for _, cf := range cfgs {
		for _, ml := range cf.levels {
			cf, ml := cf, ml
			var vkeys []string
			for _, k := range cf.keys {
				for _, ts := range cf.tss {
					vkeys = append(vkeys, types.KeyWithTs(k, ts))
				}
			}
			probes := append([]string{}, vkeys...)
			probes = append(probes, " @1", cf.keys[0]+"@0", cf.keys[0]+"@5", cf.keys[0]+"@100", cf.keys[len(cf.keys)-1]+"z@1", "zz@3")
			// one unit per first operation (the BFS below it is independent)
			for fi, fk := range vkeys {
				for fh := 1; fh <= ml+1; fh++ {
					for _, tomb := range []bool{false, true} {
						fi, fk, fh, tomb := fi, fk, fh, tomb
						units = append(units, Unit{Name: fmt.Sprintf("keys=%d/maxLevel=%d/depth=%d/first=%s,h%d,tomb=%v", len(vkeys), ml, cf.depth, fk, fh, tomb), Weight: cf.depth, Run: func(c *Ctx) {
							_ = fi
							first := slOp{Kind: "S", K: fk, V: "p", H: fh, Tomb: tomb}
							c17Search(c, ml, cf.depth, vkeys, probes, first)
						}})
					}
				}
			}
		}
	}
	// exhaustive (no deduplication) over three user keys with one version each
	exDepth := 6
	exLevels := []int{1, 2, 3, 4}
	if tier == "thorough" {
		exDepth = 8
		exLevels = []int{1, 2, 3, 4}
	}
	exKeys := []string{"a@1", "b@1", "c@1"}
	exProbes := append(append([]string{}, exKeys...), " @1", "a@9", "bb@1", "zz@3")
	for _, ml := range exLevels {
		for _, fk := range exKeys {
			for fh := 1; fh <= max(ml, 2); fh++ {
				ml, fk, fh := ml, fk, fh
				units = append(units, Unit{Name: fmt.Sprintf("exhaustive/keys=3/maxLevel=%d/depth=%d/first=%s,h%d", ml, exDepth, fk, fh), Weight: exDepth + 2, Run: func(c *Ctx) {
					c17Exhaustive(c, ml, exDepth, exKeys, exProbes, slOp{Kind: "S", K: fk, V: "p", H: fh})
				}})
			}
		}
	}
	// explicit-state search deduplicated on the IMPLEMENTATION state (implState: every field of every node reachable
	// from the list, links included): hidden state - a stale level, a cached hint, a link to an unlinked node - keeps
	// states apart, so longer sequences over more keys are reachable than without any deduplication
	implKeys := []string{"a@1", "b@1", "c@1", "d@1", "e@1"}
	implProbes := append(append([]string{}, implKeys...), " @1", "c@9", "zz@3")
	implLevels := []int{3, 4}
	implDepth, implCap := 12, 100000
	if tier == "thorough" {
		implLevels = []int{2, 3, 4}
		implDepth, implCap = 16, 300000
	}
	for _, ml := range implLevels {
		for _, fk := range implKeys {
			ml, fk := ml, fk
			units = append(units, Unit{Name: fmt.Sprintf("impl-state/keys=5/maxLevel=%d/depth=%d/first=%s", ml, implDepth, fk), Weight: implDepth + 3, Run: func(c *Ctx) {
				c17ImplSearch(c, ml, implDepth, implCap, implKeys, implProbes, fk)
			}})
		}
	}
	return units
}

// c17ImplSearch: breadth-first search over Set/Delete sequences starting with Set(first, any height); a state is the
// implState of the real list; the successor of a state is computed by replaying its shortest path plus one operation
// on a fresh list; after every transition every query is compared with the model.
func c17ImplSearch(c *Ctx, maxLevel, depth, capStates int, keys, probes []string, first string) {
	if c.Replay != nil {
		var rc struct {
			MaxLevel int    `json:"maxLevel"`
			Ops      []slOp `json:"ops"`
		}
		jsonUnmarshal(c.Replay.Case, &rc)
		fmt.Printf("maxLevel=%d ops=%v\n", rc.MaxLevel, rc.Ops)
		if _, err := slRun(rc.MaxLevel, 0.5, rc.Ops, probes); err != nil {
			fmt.Println(err)
			c.Violation(err.(*OracleErr).Sig, err.Error(), nil, nil)
		} else {
			fmt.Println("every query agrees with the model")
		}
		return
	}
	run := func(ops []slOp) (string, *slModel, error) {
		var sl *skiplist.SkipList
		var m *slModel
		err := guard("c17", func() error {
			var e error
			m, e = slRunKeep(maxLevel, 0.5, ops, probes, &sl)
			return e
		})
		if err != nil {
			return "", m, err
		}
		return implState(sl), m, nil
	}
	seen := map[string]bool{}
	var frontier [][]slOp
	for h := 1; h <= maxLevel; h++ {
		ops := []slOp{{Kind: "S", K: first, V: "p", H: h}}
		st, _, err := run(ops)
		c.Res.Executions++
		if err != nil {
			oe := err.(*OracleErr)
			c.Violation(oe.Sig, fmt.Sprintf("maxLevel=%d: %s", maxLevel, oe.Detail), nil, map[string]any{"maxLevel": maxLevel, "ops": ops})
			return
		}
		if !seen[st] {
			seen[st] = true
			frontier = append(frontier, ops)
		}
	}
	for d := 1; d < depth && len(frontier) > 0; d++ {
		var next [][]slOp
		for _, path := range frontier {
			if c.TimeUp() || len(seen) >= capStates {
				c.Res.Exhaustive = false
				c.Cap(fmt.Sprintf("impl-state search stopped at depth %d with %d states (cap %d or deadline)", d, len(seen), capStates))
				c.Res.States += int64(len(seen))
				return
			}
			var alpha []slOp
			for _, k := range keys {
				alpha = append(alpha, slOp{Kind: "D", K: k})
				for h := 1; h <= maxLevel; h++ {
					alpha = append(alpha, slOp{Kind: "S", K: k, V: "p", H: h})
				}
			}
			for _, o := range alpha {
				ops := append(append([]slOp{}, path...), o)
				st, m, err := run(ops)
				c.Res.Executions++
				c.Res.Transitions++
				c.Res.Evaluations += int64(len(probes) * (len(probes) + 2))
				if err != nil {
					oe := err.(*OracleErr)
					c.Violation(oe.Sig, fmt.Sprintf("maxLevel=%d: %s", maxLevel, oe.Detail), nil, map[string]any{"maxLevel": maxLevel, "ops": ops})
					return
				}
				if !seen[st] {
					seen[st] = true
					next = append(next, ops)
					if len(m.ents) >= 2 {
						c.NT(st)
					}
				}
			}
		}
		frontier = next
	}
	c.Res.States += int64(len(seen))
	c.Sample(map[string]any{"maxLevel": maxLevel, "first": first, "implementation_states": len(seen), "depth": depth})
}

// c17Exhaustive enumerates every sequence up to the depth WITHOUT state deduplication (a canonical state of
// (content, heights) cannot see stale internal fields such as the list level; two paths to the same canonical
// state may differ internally, so for a tiny universe every path is extended).
func c17Exhaustive(c *Ctx, maxLevel, depth int, vkeys, probes []string, first slOp) {
	if c.Replay != nil {
		c17Search(c, maxLevel, depth, vkeys, probes, first)
		return
	}
	var rec func(seq []slOp, cur *slModel)
	rec = func(seq []slOp, cur *slModel) {
		if len(c.Res.Violations) >= 5 {
			return
		}
		if c.TimeUp() {
			if c.Res.Exhaustive {
				c.Res.Exhaustive = false
				c.Cap("deadline reached before all sequences of this unit were run")
			}
			return
		}
		m, err := slRun(maxLevel, 0.5, seq, probes)
		c.Res.Executions++
		c.Res.Transitions++
		c.Res.States++
		c.Res.Evaluations += int64(len(probes)*(len(probes)+2) + 1)
		if err != nil {
			oe := err.(*OracleErr)
			c.Violation(oe.Sig, oe.Detail, nil, seq)
			return
		}
		if len(seq) >= 4 {
			c.NTHash(uint64(len(seq))*1000003 + hashOps(seq))
		}
		if len(seq) == depth {
			c.Sample(map[string]any{"ops": fmt.Sprint(seq), "state": m.key()})
			return
		}
		for _, k := range vkeys {
			i := m.find(k)
			present := i < len(m.ents) && m.ents[i].K == k
			var ops []slOp
			if present {
				ops = []slOp{{Kind: "S", K: k, V: "qq", Tomb: true, H: 1}, {Kind: "S", K: k, V: m.ents[i].V, Tomb: !m.ents[i].Tomb, H: 1}, {Kind: "D", K: k}}
			} else {
				for h := 1; h <= max(maxLevel, 2); h++ {
					ops = append(ops, slOp{Kind: "S", K: k, V: "p", H: h})
				}
			}
			for _, op := range ops {
				rec(append(append([]slOp(nil), seq...), op), m)
			}
		}
	}
	rec([]slOp{first}, nil)
}

func hashOps(seq []slOp) uint64 {
	var h uint64 = 1469598103934665603
	for _, o := range seq {
		for _, b := range []byte(o.String()) {
			h ^= uint64(b)
			h *= 1099511628211
		}
	}
	return h
}

func c17Search(c *Ctx, maxLevel, depth int, vkeys, probes []string, first slOp) {
	if c.Replay != nil {
		var ops []slOp
		jsonUnmarshal(c.Replay.Case, &ops)
		fmt.Printf("maxLevel=%d ops=%v\n", maxLevel, ops)
		if _, err := slRun(maxLevel, 0.5, ops, probes); err != nil {
			oe := err.(*OracleErr)
			fmt.Println(oe.Error())
			c.Violation(oe.Sig, oe.Detail, nil, ops)
		}
		return
	}
	seen := map[string]bool{}
	start := []slOp{first}
	m, err := slRun(maxLevel, 0.5, start, probes)
	c.Res.Executions++
	if err != nil {
		oe := err.(*OracleErr)
		c.Violation(oe.Sig, oe.Detail, nil, start)
		return
	}
	seen[m.key()] = true
	c.Res.States = 1
	frontier := [][]slOp{start}
	for d := 2; d <= depth && len(frontier) > 0; d++ {
		var next [][]slOp
		for _, seq := range frontier {
			if c.TimeUp() {
				c.Res.Exhaustive = false
				c.Cap(fmt.Sprintf("deadline reached at depth %d", d))
				return
			}
			cur := &slModel{}
			for _, o := range seq {
				cur.apply(o)
			}
			var ops []slOp
			for _, k := range vkeys {
				i := cur.find(k)
				present := i < len(cur.ents) && cur.ents[i].K == k
				if present {
					// overwrite with another value, with an empty value, and with the SAME value and the other tombstone flag
					ops = append(ops, slOp{Kind: "S", K: k, V: "qq", Tomb: true, H: 1}, slOp{Kind: "S", K: k, V: "", H: 1},
						slOp{Kind: "S", K: k, V: cur.ents[i].V, Tomb: !cur.ents[i].Tomb, H: 1}, slOp{Kind: "D", K: k})
				} else {
					for h := 1; h <= maxLevel+1; h++ {
						ops = append(ops, slOp{Kind: "S", K: k, V: "p", H: h}, slOp{Kind: "S", K: k, V: "qq", Tomb: true, H: h})
					}
					ops = append(ops, slOp{Kind: "D", K: k})
				}
			}
			for _, op := range ops {
				ns := append(append([]slOp(nil), seq...), op)
				// two p settings: every 0 < p < 1 behaves the same under a scripted source
				pp := 0.5
				if len(ns)%2 == 0 {
					pp = 0.25
				}
				m, err := slRun(maxLevel, pp, ns, probes)
				c.Res.Executions++
				c.Res.Transitions++
				c.Res.Evaluations += int64(len(probes)*(len(probes)+2) + 1)
				if err != nil {
					oe := err.(*OracleErr)
					c.Violation(oe.Sig, oe.Detail, nil, ns)
					if len(c.Res.Violations) >= 5 {
						c.Res.Exhaustive = false
						c.Cap("stopped after 5 distinct violation signatures")
						return
					}
					continue
				}
				k := m.key()
				if !seen[k] {
					seen[k] = true
					c.Res.States++
					next = append(next, ns)
					tall := 0
					for _, e := range m.ents {
						if e.H > 1 {
							tall++
						}
					}
					if len(m.ents) >= 2 && tall >= 1 {
						c.NT(k)
						c.Sample(map[string]any{"ops": fmt.Sprint(ns), "state": k})
					}
				}
			}
		}
		frontier = next
		c.SetInfo("depth_completed", d)
	}
}

func init() {
	Props["C17"] = &PropMeta{
		Units: c17Units,
		Rule: "(plus every Set/Delete sequence up to depth 6 (thorough 8) over three keys WITHOUT state deduplication, every tower height) breadth-first explicit-state search over Set/Delete sequences on the real skiplist (versioned keys over 'a','a!','b','a@1' x versions {1,2,10}; values incl. empty, tombstone flag), " +
			"every tower height 1..maxLevel for every insertion and a random source that would grow the tower beyond the cap (scripted through the math/rand shim: H-1 draws below p), maxLevel in {1,2,3,4}, states deduplicated on (content, heights); after every transition " +
			"Get, LowerBound, Scan (every start/end probe pair incl. absent keys before/between/after) and All are compared with a sorted-slice model; a state is non-trivial with >= 2 elements and a tower above 1",
		Assumptions: []string{
			"single-threaded use (the memtable serialises access with its own lock)",
			"the random source is replaced by a scripted one: every height sequence has positive probability for every 0 < p < 1",
			"the model orders by (user key bytes, version descending) computed from the generating tuples, not with types.CompareKeys",
		},
		QuickS: 90, ThoroughS: 900,
	}
}
