// Package harness: scenarios, oracles, reference models and the unit runner for all checks.
package harness

import (
	"encoding/json"
	"fmt"
	"hash/fnv"
	"os"
	"runtime/debug"
	"sort"
	"strings"
	"time"

	"verif/vrace"
	"verif/vsched"
)

// A Unit is an independently runnable part of a check (one scenario × configuration × bound).
// Units are distributed over worker processes by the root process.
type Unit struct {
	Name string
	Run  func(c *Ctx)
	// Weight orders units (heavier first) for better packing; optional.
	Weight int
}

// Ctx is handed to a unit; the unit reports into Res.
type Ctx struct {
	Prop     string
	Tier     string
	Deadline time.Time
	Replay   *ReplaySpec // non-nil: run only this recorded case, verbosely
	Res      UnitResult
	nt       map[uint64]struct{}
	sigs     map[string]bool
}

type ReplaySpec struct {
	Property string          `json:"property"`
	Tier     string          `json:"tier"`
	Unit     string          `json:"unit"`
	Sig      string          `json:"signature"`
	Detail   string          `json:"detail"`
	Trace    []int           `json:"trace,omitempty"`
	Case     json.RawMessage `json:"case,omitempty"`
}

type Viol struct {
	Sig    string          `json:"sig"`
	Detail string          `json:"detail"`
	Trace  []int           `json:"trace,omitempty"`
	Case   json.RawMessage `json:"case,omitempty"`
}

type UnitResult struct {
	Unit        string         `json:"unit"`
	Executions  int64          `json:"executions"`  // runs of the implementation
	Transitions int64          `json:"transitions"` // scheduler steps / operations applied / fs mutations
	States      int64          `json:"states"`      // distinct states / fingerprints / images / layouts
	Evaluations int64          `json:"evaluations"` // oracle evaluations
	Nontrivial  []uint64       `json:"nontrivial"`  // hashes of distinct non-trivial cases (capped)
	NTOverflow  int64          `json:"nt_overflow"`
	Outcomes    map[string]int `json:"outcomes"`
	Samples     []any          `json:"samples"`
	Violations  []Viol         `json:"violations"`
	ViolCount   int64          `json:"viol_count"`
	Exhaustive  bool           `json:"exhaustive"`
	Caps        []string       `json:"caps"`
	Info        map[string]any `json:"info"`
	EngineError string         `json:"engine_error"`
	WallS       float64        `json:"wall_s"`
}

const maxNT = 50000

// NT records a distinct non-trivial case.
func (c *Ctx) NT(key string) {
	h := fnv.New64a()
	h.Write([]byte(key))
	c.NTHash(h.Sum64())
}

func (c *Ctx) NTHash(k uint64) {
	if c.nt == nil {
		c.nt = map[uint64]struct{}{}
	}
	if _, ok := c.nt[k]; ok {
		return
	}
	if len(c.nt) >= maxNT {
		c.Res.NTOverflow++
		return
	}
	c.nt[k] = struct{}{}
}

func (c *Ctx) Outcome(k string) {
	if c.Res.Outcomes == nil {
		c.Res.Outcomes = map[string]int{}
	}
	if len(c.Res.Outcomes) < 2000 || c.Res.Outcomes[k] > 0 {
		c.Res.Outcomes[k]++
	}
}

func (c *Ctx) Sample(v any) {
	if len(c.Res.Samples) < 2 {
		c.Res.Samples = append(c.Res.Samples, v)
	}
}

func (c *Ctx) Cap(s string) {
	for _, x := range c.Res.Caps {
		if x == s {
			return
		}
	}
	c.Res.Caps = append(c.Res.Caps, s)
}

func (c *Ctx) SetInfo(k string, v any) {
	if c.Res.Info == nil {
		c.Res.Info = map[string]any{}
	}
	c.Res.Info[k] = v
}

// Violation records a violation; at most 3 per distinct signature are kept.
func (c *Ctx) Violation(sig, detail string, trace []int, cs any) {
	c.Res.ViolCount++
	if c.sigs == nil {
		c.sigs = map[string]bool{}
	}
	if c.sigs[sig] || len(c.Res.Violations) >= 40 {
		return
	}
	c.sigs[sig] = true
	var raw json.RawMessage
	if cs != nil {
		raw, _ = json.Marshal(cs)
	}
	c.Res.Violations = append(c.Res.Violations, Viol{Sig: sig, Detail: detail, Trace: trace, Case: raw})
}

func (c *Ctx) TimeUp() bool { return !c.Deadline.IsZero() && time.Now().After(c.Deadline) }

func (c *Ctx) finish() {
	for k := range c.nt {
		c.Res.Nontrivial = append(c.Res.Nontrivial, k)
	}
	sort.Slice(c.Res.Nontrivial, func(i, j int) bool { return c.Res.Nontrivial[i] < c.Res.Nontrivial[j] })
}

// ---------------------------------------------------------------- scheduled exploration helper

// SchedOpts configures ExploreSched.
type SchedOpts struct {
	Delay      bool // deviation bounding (else preemption bounding)
	Budgets    []int
	MaxEnv     int
	EnvKinds   map[string]bool // environment choice kinds that are branched on (nil: all)
	MaxSteps   int
	NoCache    bool
	Shards     int // total shards for this scenario (unit runs shard ShardI)
	ShardI     int
	ShardDepth int
	// Outcome classifies the last execution (called after each completed run)
	Outcome func() string
	// NT returns the non-trivial key of the last execution ("" = trivial)
	NT func() string
	// Sample returns a printable description of the last execution
	Sample func() any
	// Sig maps an oracle error to a violation signature (default: error text up to the first ':')
	Sig func(err error) string
	// RaceCheck: treat race-detector reports of an execution as violations (race builds)
	RaceCheck bool
}

// OracleErr carries a signature with the human-readable detail.
type OracleErr struct {
	Sig    string
	Detail string
}

func (e *OracleErr) Error() string { return e.Sig + ": " + e.Detail }

func oerr(sig, f string, a ...any) error { return &OracleErr{Sig: sig, Detail: fmt.Sprintf(f, a...)} }

// StdCheck turns engine-level failures of an execution into oracle errors.
func StdCheck(res vsched.Result) error {
	if len(res.Panics) > 0 {
		first := strings.SplitN(res.Panics[0], "\n", 2)[0]
		return oerr("panic/"+panicSite(res.Panics[0]), "%s", first+"\n"+res.Panics[0])
	}
	if res.Deadlock {
		return oerr("deadlock/"+strings.Join(blockKinds(res.Blocked), ","), "%v", res.Blocked)
	}
	if res.Horizon {
		return oerr("horizon", "execution exceeded the step horizon (%d steps)", res.Steps)
	}
	return nil
}

func blockKinds(b []string) []string {
	var r []string
	for _, s := range b {
		if strings.HasPrefix(s, "(") {
			continue
		}
		f := strings.Fields(s)
		r = append(r, f[len(f)-1])
	}
	sort.Strings(r)
	return r
}

// panicSite extracts the first originium frame of a panic stack as a stable signature part.
func panicSite(stack string) string {
	lines := strings.Split(stack, "\n")
	for _, l := range lines {
		l = strings.TrimSpace(l)
		if strings.HasPrefix(l, "github.com/B1NARY-GR0UP/originium") {
			if i := strings.LastIndex(l, "("); i > 0 {
				l = l[:i]
			}
			l = strings.TrimPrefix(l, "github.com/B1NARY-GR0UP/originium")
			return strings.Trim(l, "./")
		}
	}
	return "unknown"
}

// panicInCodeUnderTest: does the innermost non-runtime frame of the panicking goroutine belong to the repository
// (and not to the harness or the shims)?
func panicInCodeUnderTest(stack string) bool {
	lines := strings.Split(stack, "\n")
	after := false
	for _, l := range lines {
		if strings.HasPrefix(l, "\t") || strings.HasPrefix(l, " ") {
			continue
		}
		if strings.HasPrefix(l, "panic(") {
			after = true
			continue
		}
		if !after || strings.HasPrefix(l, "runtime.") || strings.HasPrefix(l, "runtime/") {
			continue
		}
		// the panic may be raised in a library the repository calls (its logger's Panicf goes through zap): what
		// counts is whose code is reached first on the way up - the repository's or the harness's
		if strings.HasPrefix(l, "verif/harness.nopLogger.") {
			continue // the harness's silent logger stands in for the repository's: its Panicf is the repository panicking
		}
		if strings.HasPrefix(l, "github.com/B1NARY-GR0UP/originium") {
			return true
		}
		if strings.HasPrefix(l, "verif/") || strings.HasPrefix(l, "main.") {
			return false
		}
	}
	return false
}

// guard runs f, a direct-mode (unscheduled) call sequence into the code under test, and turns a panic raised by
// that code into an oracle error <prefix>/panic/<site>; a panic of the harness itself is passed on.
func guard(prefix string, f func() error) (err error) {
	defer func() {
		if r := recover(); r != nil {
			st := string(debug.Stack())
			if !panicInCodeUnderTest(st) {
				panic(fmt.Sprintf("%v\n%s", r, st))
			}
			err = oerr(prefix+"/panic/"+panicSite(st[strings.Index(st, "panic("):]), "the code under test panicked: %v\n%s", r, st)
		}
	}()
	return f()
}

// ExploreSched runs the explorer over a scenario for increasing budgets and reports into c.
func ExploreSched(c *Ctx, sc vsched.Scenario, o SchedOpts) {
	if o.MaxSteps == 0 {
		o.MaxSteps = 100000
	}
	if c.Replay != nil {
		replaySched(c, sc, o)
		return
	}
	completed := -1
	for bi, b := range o.Budgets {
		if bi < len(o.Budgets)-1 && o.Shards > 1 {
			// smaller budgets are subsumed by the largest one; only shard 0 walks them (cheap) so that
			// the first counterexample reported has the fewest deviations
			if o.ShardI != 0 {
				continue
			}
		}
		x := &vsched.Explorer{Delay: o.Delay, UseCache: !o.NoCache && !vrace.Enabled, MaxDev: b, MaxEnv: o.MaxEnv, EnvKinds: o.EnvKinds, MaxSteps: o.MaxSteps,
			Scenario: sc, Deadline: c.Deadline, ShardDepth: o.ShardDepth}
		if bi == len(o.Budgets)-1 && o.Shards > 1 {
			x.ShardN, x.ShardI = o.Shards, o.ShardI
		}
		inner := sc
		x.Scenario = func() (func(), func(*vsched.Exec), func(vsched.Result) error) {
			main, mon, check := inner()
			return main, mon, func(res vsched.Result) error {
				err := check(res)
				if err == nil && o.RaceCheck && res.Races > 0 {
					err = oerr("race", "%d data race report(s) in this execution (see stderr of the worker)", res.Races)
				}
				c.Res.Evaluations++
				if o.Outcome != nil {
					c.Outcome(o.Outcome())
				}
				if o.NT != nil {
					if k := o.NT(); k != "" {
						c.NT(k)
					}
				}
				if o.Sample != nil && len(c.Res.Samples) < 2 {
					c.Sample(map[string]any{"trace": vsched.Picks(res.Trace), "steps": res.Steps, "observed": o.Sample()})
				}
				return err
			}
		}
		x.Explore()
		c.Res.Executions += int64(x.Executions)
		c.Res.Transitions += int64(x.Transitions)
		if x.States > 0 {
			c.Res.States += int64(x.States)
		} else {
			c.Res.States += int64(x.Executions - x.PrunedRuns)
		}
		if x.NondetErr != "" {
			c.Res.EngineError = x.NondetErr
			return
		}
		for _, v := range x.Violations {
			sig, detail := "oracle", v.Err.Error()
			if oe, ok := v.Err.(*OracleErr); ok {
				sig, detail = oe.Sig, oe.Detail
			} else if o.Sig != nil {
				sig = o.Sig(v.Err)
			}
			c.Violation(sig, detail, v.Trace, nil)
		}
		if x.CacheFull {
			c.Cap("fingerprint cache full: pruning stopped, exploration continued")
		}
		if x.TimedOut {
			c.Res.Exhaustive = false
			c.Cap(fmt.Sprintf("deadline reached inside budget %d (largest budget fully explored: %d)", b, completed))
			break
		}
		completed = b
	}
	c.SetInfo("budget_completed", completed)
}

func replaySched(c *Ctx, sc vsched.Scenario, o SchedOpts) {
	var first string
	for i := 0; i < 3; i++ {
		main, mon, check := sc()
		res := vsched.Run(&vsched.Replay{Prefix: c.Replay.Trace}, vsched.RunOpts{MaxSteps: o.MaxSteps, Monitor: mon, KeepLog: i == 0}, main)
		err := check(res)
		if err == nil && o.RaceCheck && res.Races > 0 {
			err = oerr("race", "%d data race report(s)", res.Races)
		}
		verdict := "no violation"
		if err != nil {
			verdict = err.Error()
		}
		if i == 0 {
			for _, l := range res.Log {
				fmt.Println("  " + l)
			}
			if o.Sample != nil {
				b, _ := json.Marshal(o.Sample())
				fmt.Printf("observed: %s\n", b)
			}
			fmt.Printf("replay verdict: %s\n", verdict)
			first = verdict
			if err != nil {
				sig := "oracle"
				if oe, ok := err.(*OracleErr); ok {
					sig = oe.Sig
				}
				c.Violation(sig, verdict, c.Replay.Trace, nil)
			}
		} else if verdict != first {
			c.Res.EngineError = fmt.Sprintf("NONDETERMINISM: replay %d gave %q, first gave %q", i, verdict, first)
		}
	}
}

// ---------------------------------------------------------------- worker entry

// RunUnit executes one unit in this process and writes its result as JSON to path.
func RunUnit(prop, tier string, u Unit, deadline time.Time, replay *ReplaySpec, out string) *UnitResult {
	c := &Ctx{Prop: prop, Tier: tier, Deadline: deadline, Replay: replay}
	c.Res.Unit = u.Name
	c.Res.Exhaustive = true
	t0 := time.Now()
	func() {
		defer func() {
			if r := recover(); r != nil {
				st := string(debug.Stack())
				if panicInCodeUnderTest(st) {
					// no unit catches this panic with its case at hand: still a verdict on the code, not an engine failure
					c.Violation(strings.ToLower(prop)+"/panic/"+panicSite(st[strings.Index(st, "panic("):]), fmt.Sprintf("the code under test panicked in unit %s: %v\n%s", u.Name, r, st), nil, nil)
					return
				}
				c.Res.EngineError = fmt.Sprintf("unit panicked: %v", r)
			}
		}()
		u.Run(c)
	}()
	c.Res.WallS = time.Since(t0).Seconds()
	c.finish()
	if out != "" {
		b, _ := json.Marshal(&c.Res)
		if err := os.WriteFile(out, b, 0o644); err != nil {
			fmt.Fprintln(os.Stderr, "cannot write result:", err)
			os.Exit(2)
		}
	}
	return &c.Res
}

// PropMeta describes a property's check for the evidence file.
type PropMeta struct {
	Units       func(tier string) []Unit
	Rule        string
	Assumptions []string
	QuickS      int // wall-clock budget of the exploration, seconds
	ThoroughS   int
}

// Props is the registry of checks.
var Props = map[string]*PropMeta{}

func jsonMarshal(v any) json.RawMessage {
	b, _ := json.Marshal(v)
	return b
}

func jsonUnmarshal(b json.RawMessage, v any) {
	if len(b) > 0 {
		_ = json.Unmarshal(b, v)
	}
}

// dbEnvKinds: environment answers that DB-level explorations branch on: which ready select case fires (Go picks
// at random: e.g. the flusher's loop with a flush and the close request both pending), the rendezvous partner
// of an unbuffered channel. Map iteration order (the engine sorts or batches what it collects from maps), buffer-pool
// answers and skiplist tower heights keep their defaults there (the last two are enumerated by C11 and C17).
var dbEnvKinds = map[string]bool{"select.case": true, "chan.partner": true}
