package harness

import (
	"fmt"
	"regexp"
	"sort"
	"strings"

	"github.com/B1NARY-GR0UP/originium"
	"github.com/B1NARY-GR0UP/originium/types"

	"verif/shim/vos"
)

// ver is one generating tuple of the versioned universe.
type ver struct {
	Key  string
	Ts   uint64
	Tomb bool
}

func (v ver) value() []byte {
	if v.Tomb {
		return []byte{}
	}
	return []byte(fmt.Sprintf("v-%s-%d", v.Key, v.Ts))
}

func (v ver) entry() types.Entry {
	return types.Entry{Key: types.KeyWithTs(v.Key, v.Ts), Value: v.value(), Tombstone: v.Tomb, Version: int64(v.Ts)}
}

func (v ver) String() string {
	if v.Tomb {
		return fmt.Sprintf("%s@%d†", v.Key, v.Ts)
	}
	return fmt.Sprintf("%s@%d", v.Key, v.Ts)
}

// sortVers orders tuples as the store must: user key ascending (byte order), version descending.
// Computed from the tuples, not with types.CompareKeys.
func sortVers(vs []ver) {
	sort.Slice(vs, func(i, j int) bool {
		if vs[i].Key != vs[j].Key {
			return vs[i].Key < vs[j].Key
		}
		return vs[i].Ts > vs[j].Ts
	})
}

func entriesOf(vs []ver) []types.Entry {
	vs = append([]ver(nil), vs...)
	sortVers(vs)
	es := make([]types.Entry, len(vs))
	for i, v := range vs {
		es[i] = v.entry()
	}
	return es
}

// modelLookup: newest version of key at or below ts among all tuples (a tombstone is a version).
func modelLookup(all []ver, key string, ts uint64) (ver, bool) {
	var best ver
	found := false
	for _, v := range all {
		if v.Key == key && v.Ts <= ts && (!found || v.Ts > best.Ts) {
			best, found = v, true
		}
	}
	return best, found
}

func sameEntry(e types.Entry, v ver) bool {
	return e.Key == types.KeyWithTs(v.Key, v.Ts) && string(e.Value) == string(v.value()) && e.Tombstone == v.Tomb && e.Version == int64(v.Ts)
}

func fmtEntry(e types.Entry, ok bool) string {
	if !ok {
		return "not-found"
	}
	t := ""
	if e.Tombstone {
		t = "†"
	}
	return fmt.Sprintf("%s%s=%q", e.Key, t, e.Value)
}

var c10L0Name = regexp.MustCompile(`^/d/0-[0-9]+\.db$`)

// c10NoLevels switches the level-placement variants off (set per unit for the largest configurations)
var c10NoLevels bool

type c10Layout struct {
	Tables [][]ver // flush order: Tables[0] flushed first
	Block  int
}

func (l c10Layout) String() string {
	var parts []string
	for _, t := range l.Tables {
		var p []string
		for _, v := range t {
			p = append(p, v.String())
		}
		parts = append(parts, "["+strings.Join(p, " ")+"]")
	}
	return fmt.Sprintf("block=%d tables(oldest first)=%s", l.Block, strings.Join(parts, " "))
}

// c10Check builds the layout with the real flush path in a fresh in-memory directory and compares
// every query with the brute-force model, on the live handles and on handles rebuilt by recover().
func c10Check(c *Ctx, l c10Layout, keys []string, tss []uint64, fpFamilies []string) {
	if err := guard("c10", func() error { c10CheckRaw(c, l, keys, tss, fpFamilies); return nil }); err != nil {
		oe := err.(*OracleErr)
		c.Violation(oe.Sig, fmt.Sprintf("%v: %s", l, oe.Detail), nil, l)
	}
}

func c10CheckRaw(c *Ctx, l c10Layout, keys []string, tss []uint64, fpFamilies []string) {
	vos.SetFS(vos.NewFS())
	vos.MkdirAll("/d", 0o755)
	lm := originium.NewVerifLM("/d", 100, 10, l.Block, false)
	var all []ver
	nonEmpty := 0
	for _, t := range l.Tables {
		if len(t) == 0 {
			continue
		}
		nonEmpty++
		if err := lm.Flush(entriesOf(t)); err != nil {
			c.Violation("c10/flush-error", fmt.Sprintf("%v: %v", l, err), nil, l)
			return
		}
		all = append(all, t...)
	}
	c.Res.Executions++
	c.Res.States++
	c.Res.Transitions += int64(nonEmpty)
	// bloom false positives: for each table and family the first non-member that its filter admits
	var fps []string
	if nonEmpty > 0 {
		member := map[string]bool{}
		for _, v := range all {
			member[v.Key] = true
		}
		for n := 0; n < nonEmpty; n++ {
			for _, fam := range fpFamilies {
				for i := 0; i < 3000; i++ {
					k := fmt.Sprintf("%s%d", fam, i)
					if !member[k] && lm.FilterContains(n, k) {
						fps = append(fps, k)
						break
					}
				}
			}
		}
	}
	rec, _ := lm.Reopen()
	type q struct {
		key string
		ts  uint64
	}
	var qs []q
	for _, k := range keys {
		for _, ts := range tss {
			qs = append(qs, q{k, ts})
		}
	}
	for _, k := range fps {
		qs = append(qs, q{k, tss[len(tss)-1]})
	}
	for hi, h := range []*originium.VerifLM{lm, rec} {
		for _, qq := range qs {
			want, wok := modelLookup(all, qq.key, qq.ts)
			got, gok := h.Lookup(qq.key, qq.ts)
			c.Res.Evaluations++
			if gok != wok || (wok && !sameEntry(got, want)) {
				kind := "wrong-version"
				switch {
				case wok && !gok:
					kind = "missed"
				case !wok && gok:
					kind = "phantom"
				}
				via := "live"
				if hi == 1 {
					via = "recovered"
				}
				ws := "not-found"
				if wok {
					ws = fmtEntry(want.entry(), true)
				}
				c.Violation(fmt.Sprintf("c10/%s/%s/tables=%d", kind, via, nonEmpty),
					fmt.Sprintf("layout %v: lookup(%q, ts=%d) via %s handles = %s, want %s", l, qq.key, qq.ts, via, fmtEntry(got, gok), ws), nil, l)
				return
			}
		}
	}
	// level placement: the same tables moved to different levels (file renames + recover): table i at level i, and
	// reversed, so that a newer version can sit in a deeper level than an older one (the engine reaches such
	// states through partial L0 compactions)
	if nonEmpty >= 2 && !c10NoLevels {
		base := vos.CurFS()
		for variant := 0; variant < 2; variant++ {
			fsx := base.Clone() // always start from the all-L0 directory
			vos.SetFS(fsx)
			names := fsx.Names()
			// the variants are built by renaming table files, which presupposes the naming scheme <level>-<idx>.db;
			// under any other scheme they are skipped (a cap, not a verdict)
			scheme := true
			for _, n := range names {
				if !c10L0Name.MatchString(n) {
					scheme = false
				}
			}
			if !scheme {
				vos.SetFS(base)
				c.Cap("table files are not named /d/0-<idx>.db: level-placement variants skipped")
				break
			}
			for i, n := range names {
				lvl := i
				if variant == 1 {
					lvl = len(names) - 1 - i
				}
				if lvl == 0 {
					continue
				}
				vos.Rename(n, fmt.Sprintf("/d/%d-0.db", lvl))
			}
			lv, _ := originium.NewVerifLM("/d", 100, 10, l.Block, false).Reopen()
			c.Res.Transitions += int64(nonEmpty)
			for _, qq := range qs {
				want, wok := modelLookup(all, qq.key, qq.ts)
				got, gok := lv.Lookup(qq.key, qq.ts)
				c.Res.Evaluations++
				if gok != wok || (wok && !sameEntry(got, want)) {
					ws := "not-found"
					if wok {
						ws = fmtEntry(want.entry(), true)
					}
					c.Violation(fmt.Sprintf("c10/levels/tables=%d", nonEmpty),
						fmt.Sprintf("layout %v with table i moved to level %s: lookup(%q, ts=%d) = %s, want %s", l, []string{"i", "T-1-i"}[variant], qq.key, qq.ts, fmtEntry(got, gok), ws), nil, l)
					return
				}
			}
		}
	}
	if nonEmpty >= 2 {
		// non-trivial: a key whose versions are spread over at least two tables
		where := map[string]map[int]bool{}
		for ti, t := range l.Tables {
			for _, v := range t {
				if where[v.Key] == nil {
					where[v.Key] = map[int]bool{}
				}
				where[v.Key][ti] = true
			}
		}
		for _, m := range where {
			if len(m) >= 2 {
				c.NT(l.String())
				break
			}
		}
	}
	if len(fps) > 0 {
		c.SetInfo("bloom_false_positive_queries", true)
	}
	c.Sample(map[string]any{"layout": l.String(), "queries": len(qs) * 2, "bloom_false_positive_keys": fps})
}

func c10Universe(keys []string, tss []uint64) []ver {
	var u []ver
	for _, k := range keys {
		for i, ts := range tss {
			u = append(u, ver{Key: k, Ts: ts, Tomb: i == 1}) // the middle version of every key is a deletion
		}
	}
	return u
}

// c10Units: the universe is distributed over T tables (each tuple: a subset of tables when dups is
// set, else at most one table); the assignment space is split into units by the first digits.
func c10Units(tier string) []Unit {
	type cfg struct {
		name   string
		keys   []string
		vers   []uint64
		tables int
		dups   bool
		blocks []int
		query  []uint64
	}
	qs := []uint64{0, 1, 2, 3, 10, 11} // one ts per class of the version set {1,2,10}
	qs2 := []uint64{1, 2, 3, 10, 11}   // classes of {2,10}
	var cfgs []cfg
	if tier == "quick" {
		cfgs = []cfg{
			{"k2v3/T2/dups", []string{"a", "a!"}, []uint64{1, 2, 10}, 2, true, []int{1, 12, 4096}, qs},
			{"k3v2/T3", []string{"a", "a!", "b"}, []uint64{2, 10}, 3, false, []int{1, 24}, qs2},
			{"k2v2/T2/at-keys", []string{"a@1", "a"}, []uint64{2, 10}, 2, true, []int{1, 4096}, qs2},
		}
	} else {
		cfgs = []cfg{
			{"k3v3/T3", []string{"a", "a!", "b"}, []uint64{1, 2, 10}, 3, false, []int{1, 20, 30, 4096}, qs},
			{"k3v3/T2/dups", []string{"a", "a!", "b"}, []uint64{1, 2, 10}, 2, true, []int{1, 12, 20, 30, 4096}, qs},
			{"k2v3/T3/dups", []string{"a@1", "a"}, []uint64{1, 2, 10}, 3, true, []int{1, 4096}, qs},
		}
	}
	var units []Unit
	for _, cf := range cfgs {
		cf := cf
		u := c10Universe(cf.keys, cf.vers)
		opts := cf.tables + 1 // absent or one table
		if cf.dups {
			opts = 1 << cf.tables // any subset
		}
		total := 1
		for range u {
			total *= opts
		}
		nShards := 16
		if total < 4096 {
			nShards = 4
		}
		qkeys := append([]string{}, cf.keys...)
		qkeys = append(qkeys, "a ", "aa", "zz") // never-written keys before/between/after
		for sh := 0; sh < nShards; sh++ {
			sh := sh
			units = append(units, Unit{Name: fmt.Sprintf("%s/shard%d", cf.name, sh), Weight: total / nShards, Run: func(c *Ctx) {
				if c.Replay != nil {
					var l c10Layout
					jsonUnmarshal(c.Replay.Case, &l)
					fmt.Println("layout:", l)
					c10Check(c, l, qkeys, cf.query, []string{"A", "a", "c"})
					for _, v := range c.Res.Violations {
						fmt.Println(v.Detail)
					}
					return
				}
				for code := sh; code < total; code += nShards {
					if code%512 == sh && c.TimeUp() {
						c.Res.Exhaustive = false
						c.Cap("deadline reached before all layouts of this unit were built")
						return
					}
					tabs := make([][]ver, cf.tables)
					x := code
					for _, v := range u {
						d := x % opts
						x /= opts
						if cf.dups {
							for t := 0; t < cf.tables; t++ {
								if d&(1<<t) != 0 {
									tabs[t] = append(tabs[t], v)
								}
							}
						} else if d > 0 {
							tabs[d-1] = append(tabs[d-1], v)
						}
					}
					for bi, b := range cf.blocks {
						c10NoLevels = bi != len(cf.blocks)/2 // level placement with one block size per configuration
						c10Check(c, c10Layout{Tables: tabs, Block: b}, qkeys, cf.query, []string{"A", "a", "c"})
					}
					if len(c.Res.Violations) >= 8 {
						c.Res.Exhaustive = false
						c.Cap("stopped after 8 distinct violation signatures")
						return
					}
				}
			}})
		}
	}
	return units
}

func init() {
	Props["C10"] = &PropMeta{
		Units: c10Units,
		Rule: "(block sizes 1 / 12 / 20 / 30 / 4096 bytes give one, two, three entries per block and a single block) every assignment of a small versioned universe (2-3 user keys incl. 'a!' and 'a@1', versions {1,2,10}, the middle version a deletion) to tables " +
			"(absent / one table, or any subset of tables = duplicates), flushed with the real flushToL0 in a fixed order, for every block size in the menu; every (key, ts) query " +
			"incl. never-written keys before/between/after and deterministic bloom false positives, on live handles and on handles rebuilt by recover(); " +
			"a layout is non-trivial when some user key has versions in at least two tables",
		Assumptions: []string{
			"direct (single-threaded) execution on the in-memory file system shim",
			"the table part of DB.search is modelled as searchLowerBound(key@ts) accepted when it has the same user key",
			"all tables are level-0 tables written by flushToL0; level placement by real compactions is covered by C09",
		},
		QuickS: 60, ThoroughS: 900,
	}
}
