package harness

import (
	"fmt"
	"strings"
	"time"

	"github.com/B1NARY-GR0UP/originium"

	"verif/shim/vos"
	"verif/shim/vsync"
	"verif/shim/vtime"
	"verif/vrace"
	"verif/vsched"
)

// ---------------------------------------------------------------- fine-grained scenarios (real goroutines)

// txnScen: an initial load (frozen), then one goroutine per element of Threads, each running its
// transactions one after the other; finally a read-only transaction reads every key, the store is
// closed, reopened and read again.
type txnScen struct {
	Name    string
	Cfg     dbCfg
	Init    []txProg
	Threads [][]txProg
	Keys    []string
	// Staged transactions are driven by the main goroutine, one after the other, before the threads start
	// (API-level prefix, never branched on): Begin and the operations; a staged transaction with Defer set
	// gets its Commit/Discard from a goroutine of its own that starts together with Threads, the others
	// finish at once. This puts the explorer's budget where the races are: concurrent commits of
	// transactions whose snapshots and read sets were fixed in a chosen order.
	Staged []stagedTxn
	// FreezeEpilogue: the final read, Close and reopen run under the default schedule only (they are
	// C15's subject; C05-C07 spend their budget on the concurrent part)
	FreezeEpilogue bool
	// NoClose: stop after the final read (Close and reopen are C15's subject and cost a table build per execution)
	NoClose bool
	// Reopen: the store is closed and opened again after the initial commits (still in the frozen prelude): the
	// threads run on a recovered store - data in sstables, timestamps and both watermarks as recovery sets them
	Reopen bool
	// FSPoints: every file-system operation of the concurrent part is a scheduling point (a reader can run between the
	// moment a table is announced in memory and the moment its file exists, between a rename and a remove, ...)
	FSPoints bool
}

type stagedTxn struct {
	Prog  txProg
	Defer bool
	// Tail: further operations a deferred transaction performs in its own goroutine before it ends
	Tail []txOp
	// Pad: after this staged transaction, so many bystander update transactions begin and are discarded at once
	// (they read and write nothing and are not part of the history): whatever the engine recycles per transaction
	// - buffers, maps, slots of a free list - has been handed out again that many times
	Pad int
}

// scenario shorthand: "rx" read x, "wy" write y, "dx" delete x, "Q" quiesce. The second key of the transaction
// scenarios is a user key that contains the version separator: "y" stands for "x@1".
func scenKey(k string) string {
	if k == "y" {
		return "x@1"
	}
	return k
}

func rw(end string, ops ...string) txProg {
	p := txProg{Update: true, End: end}
	for _, o := range ops {
		switch o[0] {
		case 'r':
			p.Ops = append(p.Ops, txOp{Op: "G", K: scenKey(o[1:])})
		case 'w':
			p.Ops = append(p.Ops, txOp{Op: "S", K: scenKey(o[1:])})
		case 'd':
			p.Ops = append(p.Ops, txOp{Op: "D", K: scenKey(o[1:])})
		case 'Q':
			p.Ops = append(p.Ops, txOp{Op: "Q"})
		}
	}
	return p
}

func ro(ops ...string) txProg {
	p := rw("X", ops...)
	p.Update = false
	return p
}

// txnObs is what one execution reports.
type txnObs struct {
	hist      *history
	init      kvState
	final     map[string]string // final read (after all threads)
	reopened  map[string]string
	closeOK   bool
	lateFS    int // file-system mutations after Close returned
	rotations int
	err       error
	outcome   string
}

// numberValues gives every Set of the scenario a unique value.
func numberValues(sc *txnScen) {
	n := 0
	fix := func(p *txProg) {
		p.Ops = append([]txOp(nil), p.Ops...)
		for i := range p.Ops {
			if p.Ops[i].Op == "S" {
				n++
				p.Ops[i].V = fmt.Sprintf("v%d", n)
				if n%5 == 4 {
					p.Ops[i].V = "" // an empty value is a value
				}
			}
		}
	}
	sc.Init = append([]txProg(nil), sc.Init...)
	for i := range sc.Init {
		fix(&sc.Init[i])
	}
	sc.Staged = append([]stagedTxn(nil), sc.Staged...)
	for i := range sc.Staged {
		fix(&sc.Staged[i].Prog)
		tp := txProg{Ops: sc.Staged[i].Tail}
		fix(&tp)
		sc.Staged[i].Tail = tp.Ops
	}
	th := make([][]txProg, len(sc.Threads))
	for t := range sc.Threads {
		th[t] = append([]txProg(nil), sc.Threads[t]...)
		for i := range th[t] {
			fix(&th[t][i])
		}
	}
	sc.Threads = th
}

func txnScenario(sc txnScen, obs *txnObs) vsched.Scenario {
	numberValues(&sc)
	return func() (func(), func(*vsched.Exec), func(vsched.Result) error) {
		*obs = txnObs{hist: &history{}, init: kvState{}}
		h := obs.hist
		var fs *vos.FS
		main := func() {
			fs = vos.CurFS()
			vsched.Freeze()
			db, err := originium.Open("/d", sc.Cfg.config())
			if err != nil {
				panic(err)
			}
			for i, p := range sc.Init {
				hh := &history{}
				rec := runTxn(db, hh, fmt.Sprintf("init%d", i), p, nil)
				if rec.Err != "" {
					panic("init commit failed: " + rec.Err)
				}
				obs.init.apply(rec.writes())
			}
			vsched.WaitQuiescent()
			if sc.Reopen {
				db.Close()
				vtime.Set(vtime.Now().Add(time.Second))
				db, err = originium.Open("/d", sc.Cfg.config())
				if err != nil {
					panic(err)
				}
				vsched.WaitQuiescent()
			}
			if sc.FSPoints {
				fs.Points = true
			}
			var deferred []*liveTxn
			for i, st := range sc.Staged {
				l := startTxn(db, h, fmt.Sprintf("S%d", i+1), st.Prog, nil)
				l.tail = st.Tail
				if st.Defer {
					deferred = append(deferred, l)
				} else {
					l.finish()
				}
				for i := 0; i < st.Pad; i++ {
					db.Begin(true).Discard()
				}
			}
			vsched.Thaw()
			var wg vsync.WaitGroup
			for _, l := range deferred {
				l := l
				wg.Add(1)
				vsched.GoUser(l.rec.Name+"-end", func() {
					defer wg.Done()
					l.more(l.tail)
					l.finish()
				})
			}
			for ti, progs := range sc.Threads {
				ti, progs := ti, progs
				wg.Add(1)
				vsched.GoUser(fmt.Sprintf("T%d", ti+1), func() {
					defer wg.Done()
					for pi, p := range progs {
						name := fmt.Sprintf("T%d", ti+1)
						if len(progs) > 1 {
							name = fmt.Sprintf("T%d.%d", ti+1, pi+1)
						}
						runTxn(db, h, name, p, nil)
					}
				})
			}
			wg.Wait()
			if sc.FreezeEpilogue {
				vsched.Freeze()
			}
			// final read-only transaction: after everything in real time
			fin := ro()
			for _, k := range sc.Keys {
				fin.Ops = append(fin.Ops, txOp{Op: "G", K: k})
			}
			rec := runTxn(db, h, "final", fin, nil)
			obs.final = map[string]string{}
			for _, o := range rec.Ops {
				if o.Found {
					obs.final[o.K] = o.V
				}
			}
			if !vrace.Enabled { // the accessor reads engine state without its locks
				_, tabs := db.VerifShape()
				for _, t := range tabs {
					obs.rotations += t
				}
			}
			if sc.NoClose {
				obs.closeOK = true
				return
			}
			db.Close()
			obs.closeOK = true
			n0 := len(fs.Log)
			vsched.WaitQuiescent()
			obs.lateFS = len(fs.Log) - n0
			// the directory can be reopened at once with the complete committed state
			db2, err := originium.Open("/d", sc.Cfg.config())
			if err != nil {
				panic(err)
			}
			obs.reopened = map[string]string{}
			db2.View(func(tx *originium.Txn) error {
				for _, k := range sc.Keys {
					if v, ok := tx.Get(k); ok {
						obs.reopened[k] = string(v)
					}
				}
				return nil
			})
			db2.Close()
		}
		check := func(res vsched.Result) error {
			var parts []string
			for _, t := range h.txns {
				parts = append(parts, t.String())
			}
			obs.outcome = strings.Join(parts, " ")
			if err := StdCheck(res); err != nil {
				oe := err.(*OracleErr)
				if res.Deadlock {
					return oerr(oe.Sig, "%s\nhistory so far:\n      %s", oe.Detail, h)
				}
				return err
			}
			return nil
		}
		return main, nil, check
	}
}

// outcomeKey abstracts a history to what the oracles look at (values and commit results, not times).
func (o *txnObs) outcomeKey() string {
	var parts []string
	for _, t := range o.hist.txns {
		var s []string
		for _, op := range t.Ops {
			if op.Op == "G" {
				if op.Found {
					s = append(s, op.K+"="+op.V)
				} else {
					s = append(s, op.K+"=∅")
				}
			}
		}
		parts = append(parts, fmt.Sprintf("%s[%s]%s", t.Name, strings.Join(s, ","), t.Err))
	}
	return strings.Join(parts, " ")
}

// ---------------------------------------------------------------- oracles per property

type txnOracle func(o *txnObs) error

func oracleC05(o *txnObs) error {
	if err := checkSnapshots(o.hist, o.init, modeSnapshot); err != nil {
		return oerr("c05/snapshot-violated", "%v\nhistory:\n      %s", err, o.hist)
	}
	return nil
}

func oracleC06(o *txnObs) error {
	err, _ := checkSerializable(o.hist, o.init)
	pp := porcupineSerializable(o.hist, o.init)
	if (err == nil) != pp {
		return oerr("engine/oracle-disagreement", "brute force says %v, porcupine says %v\nhistory:\n      %s", err, pp, o.hist)
	}
	if err != nil {
		return oerr("c06/not-serializable", "%v\nhistory:\n      %s", err, o.hist)
	}
	return nil
}

func oracleC07(o *txnObs) error {
	if err := checkSnapshots(o.hist, o.init, modeSnapshot); err != nil {
		// the snapshot itself is C05's subject; the conflict rule is undefined without one
		return oerr("c07/snapshot-violated", "%v\nhistory:\n      %s", err, o.hist)
	}
	if err := checkSnapshots(o.hist, o.init, modeConflict); err != nil {
		kind := "rule-violated"
		switch {
		case strings.Contains(err.Error(), "refused with a conflict although"), strings.Contains(err.Error(), "wrote nothing was refused"):
			kind = "spurious-conflict"
		case strings.Contains(err.Error(), "committed although"):
			kind = "missed-conflict"
		}
		return oerr("c07/"+kind, "%v\nhistory:\n      %s", err, o.hist)
	}
	return nil
}

func oracleC15(o *txnObs) error {
	for _, t := range o.hist.txns {
		if !t.Done {
			return oerr("c15/call-did-not-return", "%s did not finish\nhistory:\n      %s", t.Name, o.hist)
		}
	}
	if !o.closeOK {
		return oerr("c15/close-did-not-return", "Close did not return")
	}
	if o.lateFS > 0 {
		return oerr("c15/background-work-after-close", "%d file-system mutations happened after Close had returned", o.lateFS)
	}
	for k, v := range o.final {
		if o.reopened[k] != v {
			return oerr("c15/reopen-incomplete", "after Close and an immediate Open key %q reads %q, before Close it read %q", k, o.reopened[k], v)
		}
	}
	for k, v := range o.reopened {
		if _, ok := o.final[k]; !ok {
			return oerr("c15/reopen-incomplete", "after Close and an immediate Open key %q reads %q, before Close it was absent", k, v)
		}
	}
	return nil
}

// exploreTxn explores one scenario with the given oracles.
func exploreTxn(c *Ctx, sc txnScen, budgets []int, shards, shardI int, oracles ...txnOracle) {
	var obs txnObs
	inner := txnScenario(sc, &obs)
	wrapped := func() (func(), func(*vsched.Exec), func(vsched.Result) error) {
		main, mon, check := inner()
		return main, mon, func(res vsched.Result) error {
			if err := check(res); err != nil {
				return err
			}
			for _, or := range oracles {
				if err := or(&obs); err != nil {
					return err
				}
			}
			return nil
		}
	}
	ExploreSched(c, wrapped, SchedOpts{Delay: true, Budgets: budgets, MaxEnv: 1, EnvKinds: dbEnvKinds, MaxSteps: 300000, Shards: shards, ShardI: shardI, ShardDepth: 1,
		RaceCheck: true,
		Outcome:   func() string { return obs.outcomeKey() },
		NT: func() string {
			// non-trivial: at least two transactions overlapped in time
			for i, a := range obs.hist.txns {
				for _, b := range obs.hist.txns[i+1:] {
					if a.BeginCall < b.EndRet && b.BeginCall < a.EndRet {
						return sc.Name + "|" + sc.Cfg.String() + "|" + obs.outcomeKey()
					}
				}
			}
			return ""
		},
		Sample: func() any {
			return map[string]any{"scenario": sc.Name, "config": sc.Cfg.String(), "history": obs.hist.String(), "tables_at_end": obs.rotations}
		}})
}

// ---------------------------------------------------------------- API-level interleavings (one goroutine, several open transactions)

// apiScen: k transaction programs driven by one goroutine; Order lists which transaction takes its
// next step (Begin, each operation, End).
type apiScen struct {
	Cfg   dbCfg
	Init  []txProg
	Progs []txProg
	Order []int
	Eager bool
	// Settled: before the programs start, a read-only transaction begins and ends at the current timestamp and the
	// engine runs until nothing is enabled, so that both watermarks stand AT the newest timestamp (a state the engine
	// is in after every idle moment, and in which the programs' transactions share a read timestamp that the read
	// watermark has already reached); implies Eager
	Settled bool
	// Reopen: the store is closed and opened again after the initial commits, so the programs run on a recovered
	// store (timestamps continued from the files, watermarks initialised by recovery, data in sstables); implies Eager
	Reopen bool
	// Keys: what the final read-only transaction reads (default: the two standard keys)
	Keys []string
}

type apiReopenImage struct {
	fs   *vos.FS
	init kvState
}

var apiReopenImages = map[string]*apiReopenImage{}

func apiScenario(sc apiScen, obs *txnObs) vsched.Scenario {
	return func() (func(), func(*vsched.Exec), func(vsched.Result) error) {
		*obs = txnObs{hist: &history{}, init: kvState{}}
		h := obs.hist
		main := func() {
			vsched.Freeze()
			var db *originium.DB
			var err error
			ck := fmt.Sprint(sc.Cfg, sc.Init)
			if img := apiReopenImages[ck]; sc.Reopen && img != nil {
				// the directory a clean Close left after the initial commits is the same in every execution of this plan:
				// it is produced by the engine once per worker process and copied afterwards
				vos.SetFS(img.fs.Clone())
				for k, v := range img.init {
					obs.init[k] = v
				}
			} else {
				db, err = originium.Open("/d", sc.Cfg.config())
				if err != nil {
					panic(err)
				}
				for i, p := range sc.Init {
					rec := runTxn(db, &history{}, fmt.Sprintf("init%d", i), p, nil)
					obs.init.apply(rec.writes())
				}
				if sc.Reopen {
					db.Close()
					im := &apiReopenImage{fs: vos.CurFS().Clone(), init: kvState{}}
					for k, v := range obs.init {
						im.init[k] = v
					}
					apiReopenImages[ck] = im
				}
			}
			if sc.Reopen {
				vtime.Set(vtime.Epoch().Add(time.Second))
				db, err = originium.Open("/d", sc.Cfg.config())
				if err != nil {
					panic(err)
				}
				vsched.WaitQuiescent()
			}
			if sc.Settled {
				db.View(func(tx *originium.Txn) error { tx.Get(scenKey("x")); return nil })
				vsched.WaitQuiescent()
			}
			vsched.Thaw()
			type live struct {
				tx   *originium.Txn
				rec  *txnRec
				step int
			}
			ls := make([]*live, len(sc.Progs))
			nval := 100
			for _, ti := range sc.Order {
				p := sc.Progs[ti]
				l := ls[ti]
				if l == nil {
					l = &live{rec: &txnRec{Name: fmt.Sprintf("T%d", ti+1), Update: p.Update, End: p.End}}
					ls[ti] = l
					h.add(l.rec)
					l.rec.BeginCall = h.tick()
					l.tx = db.Begin(p.Update)
					l.rec.BeginRet = h.tick()
					l.rec.ReadTs = l.tx.VerifReadTs()
				} else if l.step < len(p.Ops) {
					o := p.Ops[l.step]
					l.step++
					oo := obsOp{Op: o.Op, K: o.K}
					switch o.Op {
					case "G":
						v, ok := l.tx.Get(xKey(o.K))
						oo.V, oo.Found = sVal(o.K, v), ok
						if !ok {
							oo.V = ""
						}
					case "S":
						nval++
						oo.V = fmt.Sprintf("v%d", nval)
						if nval%3 == 0 {
							oo.V = "" // an empty value is a value
						}
						if err := l.tx.Set(xKey(o.K), xVal(o.K, oo.V)); err != nil {
							oo.Err = err.Error()
						}
					case "L":
						oo.Op = "S"
						oo.V = "<70000 bytes>"
						if err := l.tx.Set(xKey(o.K), oversizeValue); err != nil {
							oo.Err = err.Error()
						} else {
							oo.V = string(oversizeValue)
						}
					case "D":
						if err := l.tx.Delete(xKey(o.K)); err != nil {
							oo.Err = err.Error()
						}
					}
					l.rec.Ops = append(l.rec.Ops, oo)
				} else {
					l.rec.EndCall = h.tick()
					if p.End == "C" {
						if err := l.tx.Commit(); err != nil {
							l.rec.Err = err.Error()
						}
					} else {
						l.tx.Discard()
					}
					l.rec.EndRet = h.tick()
					l.rec.Done = true
				}
				if sc.Eager || sc.Settled || sc.Reopen {
					vsched.WaitQuiescent()
				}
			}
			fin := ro("rx", "ry")
			if len(sc.Keys) > 0 {
				fin.Ops = nil
				for _, k := range sc.Keys {
					fin.Ops = append(fin.Ops, txOp{Op: "G", K: k})
				}
			}
			runTxn(db, h, "final", fin, nil)
			obs.closeOK = true
		}
		check := func(res vsched.Result) error { return StdCheck(res) }
		return main, nil, check
	}
}

// merges enumerates all interleavings of step sequences of the given lengths.
func merges(lens []int, f func(order []int)) {
	total := 0
	for _, l := range lens {
		total += l
	}
	left := append([]int(nil), lens...)
	order := make([]int, 0, total)
	var rec func()
	rec = func() {
		if len(order) == total {
			f(order)
			return
		}
		for i := range left {
			if left[i] > 0 {
				left[i]--
				order = append(order, i)
				rec()
				order = order[:len(order)-1]
				left[i]++
			}
		}
	}
	rec()
}

// apiPrograms: all programs with 1..maxOps operations over {r,w,d} x keys, ending with Commit
// (update) - plus read-only variants and discarded variants when asked.
func apiPrograms(keys []string, maxOps int, withDiscard bool) []txProg {
	var alpha []txOp
	for _, k := range keys {
		alpha = append(alpha, txOp{Op: "G", K: k}, txOp{Op: "S", K: k})
	}
	alpha = append(alpha, txOp{Op: "D", K: keys[0]}, txOp{Op: "L", K: keys[0]})
	var progs []txProg
	var rec func(cur []txOp)
	rec = func(cur []txOp) {
		if len(cur) > 0 {
			progs = append(progs, txProg{Update: true, Ops: append([]txOp(nil), cur...), End: "C"})
			if withDiscard && cur[len(cur)-1].Op != "G" {
				progs = append(progs, txProg{Update: true, Ops: append([]txOp(nil), cur...), End: "X"})
			}
			allReads := true
			for _, o := range cur {
				if o.Op != "G" {
					allReads = false
				}
			}
			if allReads {
				progs = append(progs, txProg{Update: false, Ops: append([]txOp(nil), cur...), End: "X"})
			}
		}
		if len(cur) == maxOps {
			return
		}
		for _, o := range alpha {
			rec(append(cur, o))
		}
	}
	rec(nil)
	return progs
}

// exploreAPI runs every interleaving of the given program tuple.
func exploreAPI(c *Ctx, cfg dbCfg, init []txProg, progs []txProg, keys []string, eager, settled, reopen bool, oracles ...txnOracle) {
	lens := make([]int, len(progs))
	for i, p := range progs {
		lens[i] = len(p.Ops) + 2
	}
	merges(lens, func(order []int) {
		if len(c.Res.Violations) >= 6 {
			return
		}
		var obs txnObs
		sc := apiScen{Cfg: cfg, Init: init, Progs: progs, Order: append([]int(nil), order...), Eager: eager, Settled: settled, Reopen: reopen, Keys: keys}
		inner := apiScenario(sc, &obs)
		main, mon, check := inner()
		res := vsched.Run(vsched.Default{}, vsched.RunOpts{MaxSteps: 200000, Monitor: mon}, main)
		c.Res.Executions++
		c.Res.Transitions += int64(res.Steps)
		c.Res.Evaluations++
		c.Res.States++
		err := check(res)
		for _, or := range oracles {
			if err == nil {
				err = or(&obs)
			}
		}
		overlap := false
		for i, a := range obs.hist.txns {
			for _, b := range obs.hist.txns[i+1:] {
				if a.Name != "final" && b.Name != "final" && a.BeginCall < b.EndRet && b.BeginCall < a.EndRet {
					overlap = true
				}
			}
		}
		if overlap {
			c.NT(fmt.Sprint(progs, order))
			c.Sample(map[string]any{"programs": fmt.Sprint(progs), "order": fmt.Sprint(order), "history": obs.hist.String()})
		}
		c.Outcome(conflictPattern(obs.hist))
		if err != nil {
			sig, detail := "oracle", err.Error()
			if oe, ok := err.(*OracleErr); ok {
				sig, detail = oe.Sig, oe.Detail
			}
			c.Violation(sig, fmt.Sprintf("programs %v, API order %v, config %s, eager=%v settled=%v reopened=%v\n%s", progs, order, cfg, eager, settled, reopen, detail), nil,
				map[string]any{"cfg": cfg, "init": init, "progs": progs, "order": order, "eager": eager, "settled": settled, "reopen": reopen, "keys": keys})
		}
	})
}

func conflictPattern(h *history) string {
	var p []string
	for _, t := range h.txns {
		if t.Name == "final" {
			continue
		}
		switch {
		case t.End != "C":
			p = append(p, "discard")
		case t.Err != "":
			p = append(p, "refused")
		default:
			p = append(p, "commit")
		}
	}
	return strings.Join(p, ",")
}

func replayAPI(c *Ctx, oracles ...txnOracle) {
	var rc struct {
		Cfg     dbCfg    `json:"cfg"`
		Init    []txProg `json:"init"`
		Progs   []txProg `json:"progs"`
		Order   []int    `json:"order"`
		Eager   bool     `json:"eager"`
		Settled bool     `json:"settled"`
		Reopen  bool     `json:"reopen"`
		Keys    []string `json:"keys"`
	}
	jsonUnmarshal(c.Replay.Case, &rc)
	var obs txnObs
	main, mon, check := apiScenario(apiScen{Cfg: rc.Cfg, Init: rc.Init, Progs: rc.Progs, Order: rc.Order, Eager: rc.Eager, Settled: rc.Settled, Reopen: rc.Reopen, Keys: rc.Keys}, &obs)()
	res := vsched.Run(vsched.Default{}, vsched.RunOpts{MaxSteps: 200000, Monitor: mon, KeepLog: false}, main)
	err := check(res)
	for _, or := range oracles {
		if err == nil {
			err = or(&obs)
		}
	}
	fmt.Printf("programs %v\nAPI order %v config %s eager=%v\nhistory:\n      %s\n", rc.Progs, rc.Order, rc.Cfg, rc.Eager, obs.hist)
	if err != nil {
		fmt.Println("verdict:", err)
		sig := "oracle"
		if oe, ok := err.(*OracleErr); ok {
			sig = oe.Sig
		}
		c.Violation(sig, err.Error(), nil, nil)
	} else {
		fmt.Println("verdict: no violation")
	}
}
