package harness

import (
	"fmt"
	"sort"
	"strings"

	"github.com/B1NARY-GR0UP/originium/pkg/watermark"

	"verif/shim/vcontext"
	"verif/shim/vsync"
	"verif/vsched"
)

// ---------------------------------------------------------------- reference model (counters in enqueue order)

type wmRef struct {
	out    map[uint64]int      // begun minus finished, plain counting (may be negative after a Done without Begin)
	outc   map[uint64]int      // the same, but a Done with nothing outstanding is ignored (clamped at 0)
	exempt map[uint64]int      // begins issued while the mark was already entitled to stand at or above the index
	caps   map[uint64][]uint64 // for each exempt begin still outstanding: where the mark may stand at most (the bound at begin time)
	seen   map[uint64]bool
	order  []uint64 // the seen indices, ascending
	U, L   uint64   // upper / lower bound for DoneUntil (running maxima)
}

func (r *wmRef) see(t uint64) {
	if r.seen[t] {
		return
	}
	r.seen[t] = true
	i := sort.Search(len(r.order), func(i int) bool { return r.order[i] >= t })
	r.order = append(r.order, 0)
	copy(r.order[i+1:], r.order[i:])
	r.order[i] = t
}

func newWmRef() *wmRef {
	return &wmRef{out: map[uint64]int{}, outc: map[uint64]int{}, caps: map[uint64][]uint64{}, exempt: map[uint64]int{}, seen: map[uint64]bool{}}
}

func (r *wmRef) recompute() {
	idx := r.order
	var candU, candL uint64
	blockedU, blockedL := false, false
	for _, t := range idx {
		if r.out[t]-r.exempt[t] > 0 {
			blockedU = true
		}
		if r.outc[t] > 0 {
			blockedL = true
		}
		if !blockedU {
			candU = t
		}
		if !blockedL {
			candL = t
		}
	}
	// An index begun while the mark could already stand at or above it does not push the mark back, but the mark
	// must not ADVANCE any further while that index is unfinished ("never advances to or beyond an index that has been
	// begun more often than finished"): it may stand where it was entitled to stand when the index began, at most.
	for _, cs := range r.caps {
		for _, c := range cs {
			if candU > c {
				candU = c
			}
		}
	}
	if candU > r.U {
		r.U = candU
	}
	if candL > r.L {
		r.L = candL
	}
}

func (r *wmRef) begin(t uint64) {
	r.see(t)
	r.out[t]++
	r.outc[t]++
	if r.U >= t {
		r.exempt[t]++
		r.caps[t] = append(r.caps[t], r.U)
	}
	r.recompute()
}

func (r *wmRef) done(t uint64) {
	r.see(t)
	// A Done that precedes its Begin (recovery) admits two readings: plain counting ("begun more
	// often than finished": the later Begin is evened out) or "sets the mark" (the later Begin is
	// outstanding). The upper bound uses the first, the lower bound the second: both are accepted.
	r.out[t]--
	if r.outc[t] > 0 {
		r.outc[t]--
	}
	if o := max(r.out[t], 0); r.exempt[t] > o {
		r.exempt[t] = o
		// the finished begin is taken to be the one that restricts the mark most: keep the largest caps
		cs := r.caps[t]
		sort.Slice(cs, func(i, j int) bool { return cs[i] > cs[j] })
		r.caps[t] = cs[:o]
	}
	r.recompute()
}

func (r *wmRef) clone() *wmRef {
	c := newWmRef()
	for k, v := range r.out {
		c.out[k] = v
	}
	for k, v := range r.outc {
		c.outc[k] = v
	}
	for k, v := range r.exempt {
		c.exempt[k] = v
	}
	for k, v := range r.caps {
		c.caps[k] = append([]uint64(nil), v...)
	}
	for k, v := range r.seen {
		c.seen[k] = v
	}
	c.order = append([]uint64(nil), r.order...)
	c.U, c.L = r.U, r.L
	return c
}

// key: canonical form of the reference state (for deduplicating candidate linearizations)
func (r *wmRef) key(b []byte) []byte {
	idx := r.order
	b = append(b, byte(r.U), byte(r.U>>8), byte(r.L), byte(r.L>>8))
	for _, t := range idx {
		b = append(b, byte(t), byte(t>>8), byte(r.out[t]+64), byte(r.outc[t]), byte(r.exempt[t]), byte(len(r.caps[t])))
		cs := append([]uint64(nil), r.caps[t]...)
		sort.Slice(cs, func(i, j int) bool { return cs[i] < cs[j] })
		for _, c := range cs {
			b = append(b, byte(c), byte(c>>8))
		}
	}
	return b
}

// wmLin: the reference as a LINEARIZABILITY oracle. Begin and Done take effect at some moment between their call and
// their return - an implementation that hands the mark to a goroutine takes effect at the hand-off, one that updates
// its state under a lock takes effect there and has further scheduling points (waking waiters) before it returns -
// and calls of different clients overlap. The oracle keeps every reference state that some order of the effects
// consistent with the call/return intervals seen so far can produce; every observation must be admitted by at least
// one of them and rules out the others.
type wmLin struct {
	cands []*wmCand
	pend  []*wmStep // per client: the Begin/Done that has been called and has not returned
	buf   []byte
}

type wmCand struct {
	r       *wmRef
	applied []bool // per client: has its pending operation taken effect in this candidate?
}

func newWmLin(clients int) *wmLin {
	return &wmLin{cands: []*wmCand{{r: newWmRef(), applied: make([]bool, clients)}}, pend: make([]*wmStep, clients)}
}

func (l *wmLin) candKey(c *wmCand) string {
	b := l.buf[:0]
	for _, a := range c.applied {
		if a {
			b = append(b, 1)
		} else {
			b = append(b, 0)
		}
	}
	b = c.r.key(b)
	l.buf = b
	return string(b)
}

// call: client starts a Begin or Done; afterwards every order in which the pending operations may have taken
// effect is represented.
func (l *wmLin) call(client int, s wmStep) {
	l.pend[client] = &s
	for _, c := range l.cands {
		c.applied[client] = false
	}
	seen := map[string]bool{}
	for _, c := range l.cands {
		seen[l.candKey(c)] = true
	}
	for i := 0; i < len(l.cands); i++ {
		c := l.cands[i]
		for k, p := range l.pend {
			if p == nil || c.applied[k] {
				continue
			}
			n := &wmCand{r: c.r.clone(), applied: append([]bool(nil), c.applied...)}
			if p.Op == "B" {
				n.r.begin(p.T)
			} else {
				n.r.done(p.T)
			}
			n.applied[k] = true
			if key := l.candKey(n); !seen[key] {
				seen[key] = true
				l.cands = append(l.cands, n)
			}
		}
	}
}

// ret: the client's operation has returned, so it has taken effect.
func (l *wmLin) ret(client int) {
	keep := l.cands[:0]
	for _, c := range l.cands {
		if c.applied[client] {
			keep = append(keep, c)
		}
	}
	l.cands = keep
	l.pend[client] = nil
}

// observe: DoneUntil was read as d. Candidates whose upper bound is below d are ruled out; false if none is left.
func (l *wmLin) observe(d uint64) (ok bool, maxU uint64) {
	keep := l.cands[:0]
	for _, c := range l.cands {
		if c.r.U > maxU {
			maxU = c.r.U
		}
		if d <= c.r.U {
			keep = append(keep, c)
		}
	}
	if len(keep) == 0 {
		return false, maxU
	}
	l.cands = keep
	return true, maxU
}

// ---------------------------------------------------------------- scripts

// wmStep: op ∈ B (Begin) D (Done) W (WaitForMark, background ctx) V (WaitForMark, cancellable ctx) X (cancel)
type wmStep struct {
	Op string
	T  uint64
}

func (s wmStep) String() string {
	if s.Op == "X" {
		return "X"
	}
	return fmt.Sprintf("%s%d", s.Op, s.T)
}

func scriptString(scripts [][]wmStep) string {
	var parts []string
	for _, sc := range scripts {
		var p []string
		for _, s := range sc {
			p = append(p, s.String())
		}
		parts = append(parts, strings.Join(p, " "))
	}
	return strings.Join(parts, " | ")
}

// wmScenario builds the scenario for one script set.
func wmScenario(scripts [][]wmStep, obs *string) vsched.Scenario {
	return func() (func(), func(*vsched.Exec), func(vsched.Result) error) {
		var w *watermark.WaterMark
		lin := newWmLin(len(scripts))
		var last uint64
		var verr error
		n := len(scripts)
		waiting := make([]int64, n) // index a client is blocked on (-1 none)
		waitCanc := make([]bool, n)
		for i := range waiting {
			waiting[i] = -1
		}
		cancelled := false
		finished := 0
		quiesced := false
		var finalDU uint64
		fail := func(sig, f string, a ...any) {
			if verr == nil {
				verr = oerr(sig, f, a...)
			}
		}
		main := func() {
			w = watermark.New()
			ctx, cancel := vcontext.WithCancel(vcontext.Background())
			var wg vsync.WaitGroup
			for i, sc := range scripts {
				i, sc := i, sc
				wg.Add(1)
				vsched.GoUser(fmt.Sprintf("c%d", i), func() {
					for _, s := range sc {
						switch s.Op {
						case "B", "D":
							lin.call(i, s)
							if s.Op == "B" {
								w.Begin(s.T)
							} else {
								w.Done(s.T)
							}
							lin.ret(i)
						case "X":
							cancelled = true
							cancel()
						case "W", "V":
							waiting[i] = int64(s.T)
							waitCanc[i] = s.Op == "V"
							var err error
							if s.Op == "W" {
								err = w.WaitForMark(vcontext.Background(), s.T)
							} else {
								err = w.WaitForMark(ctx, s.T)
							}
							waiting[i] = -1
							du := w.DoneUntil()
							switch {
							case err == nil && du < s.T:
								fail("wait-returned-early", "WaitForMark(%d) returned nil with DoneUntil=%d", s.T, du)
							case err != nil && !(s.Op == "V" && cancelled):
								fail("wait-spurious-error", "WaitForMark(%d) returned %v although its context was not cancelled", s.T, err)
							}
						}
					}
					finished++
					wg.Done()
				})
			}
			wg.Wait()
			vsched.WaitQuiescent()
			quiesced = true
			finalDU = w.DoneUntil()
		}
		monitor := func(e *vsched.Exec) {
			if w == nil || verr != nil {
				return
			}
			d := w.DoneUntil()
			if d < last {
				fail("doneuntil-decreased", "DoneUntil decreased %d -> %d", last, d)
			}
			last = d
			if ok, u := lin.observe(d); !ok {
				fail("doneuntil-passed-unfinished", "DoneUntil=%d exceeds the reference upper bound %d (unfinished work at or below it) under every order in which the calls made so far can have taken effect", d, u)
			}
		}
		check := func(res vsched.Result) error {
			if len(lin.cands) == 0 {
				lin.cands = []*wmCand{{r: newWmRef()}}
			}
			if obs != nil {
				r := lin.cands[0].r
				*obs = fmt.Sprintf("du=%d L=%d U=%d fin=%d/%d dl=%v", last, r.L, r.U, finished, n, res.Deadlock)
			}
			if verr != nil {
				return verr
			}
			if len(res.Panics) > 0 || res.Horizon {
				return StdCheck(res)
			}
			// the end state is judged against every remaining candidate order: it is accepted if one of them admits it
			judge := func(r *wmRef) error {
				if res.Deadlock {
					// a waiter may legitimately wait forever for an index that is never reached
					for i, t := range waiting {
						if t < 0 {
							continue
						}
						if r.L >= uint64(t) {
							return oerr("waiter-stuck", "client %d blocked in WaitForMark(%d) although every index up to %d is finished (DoneUntil=%d)", i, t, r.L, last)
						}
						if waitCanc[i] && cancelled {
							return oerr("waiter-stuck-cancelled", "client %d blocked in WaitForMark(%d) although its context was cancelled", i, t)
						}
					}
					if finished+countWaiting(waiting) < n {
						return StdCheck(res) // blocked somewhere else than in WaitForMark
					}
					// quiescent by definition of deadlock: liveness bound
					if last < r.L {
						return oerr("doneuntil-stuck", "quiescent with DoneUntil=%d below %d although every begun index up to %d is finished", last, r.L, r.L)
					}
					return nil
				}
				if quiesced && finalDU < r.L {
					return oerr("doneuntil-stuck", "quiescent with DoneUntil=%d below %d although every begun index up to %d is finished", finalDU, r.L, r.L)
				}
				return nil
			}
			var first error
			for _, c := range lin.cands {
				err := judge(c.r)
				if err == nil {
					return nil
				}
				if first == nil {
					first = err
				}
			}
			return first
		}
		return main, monitor, check
	}
}

func countWaiting(w []int64) int {
	n := 0
	for _, t := range w {
		if t >= 0 {
			n++
		}
	}
	return n
}

// genWmScripts enumerates all well-formed script sets with at most maxClients clients and exactly
// total operations over indices 1..maxT. Well-formed: a client's Done(t) follows a Begin(t) of the
// same client, except for one optional leading Done on the first client (as Open issues it);
// clients other than the first are sorted (they are interchangeable).
func genWmScripts(total, maxClients int, maxT uint64, withCancel bool) [][][]wmStep {
	var alphabet []wmStep
	for t := uint64(1); t <= maxT; t++ {
		alphabet = append(alphabet, wmStep{"B", t})
	}
	for t := uint64(1); t <= maxT; t++ {
		alphabet = append(alphabet, wmStep{"D", t})
	}
	for t := uint64(1); t <= maxT; t++ {
		alphabet = append(alphabet, wmStep{"W", t})
	}
	if withCancel {
		for t := uint64(1); t <= maxT; t++ {
			alphabet = append(alphabet, wmStep{"V", t})
		}
		alphabet = append(alphabet, wmStep{"X", 0})
	}
	// all single-client scripts of a given length
	var gen func(n int, first bool) [][]wmStep
	gen = func(n int, first bool) [][]wmStep {
		var out [][]wmStep
		var rec func(cur []wmStep, open map[uint64]int)
		rec = func(cur []wmStep, open map[uint64]int) {
			if len(cur) == n {
				out = append(out, append([]wmStep(nil), cur...))
				return
			}
			for _, s := range alphabet {
				if s.Op == "D" {
					if open[s.T] == 0 && !(first && len(cur) == 0) {
						continue
					}
				}
				if s.Op == "D" && open[s.T] > 0 {
					open[s.T]--
					rec(append(cur, s), open)
					open[s.T]++
				} else if s.Op == "B" {
					open[s.T]++
					rec(append(cur, s), open)
					open[s.T]--
				} else {
					rec(append(cur, s), open)
				}
			}
		}
		rec(nil, map[uint64]int{})
		return out
	}
	cache := map[[2]int][][]wmStep{}
	get := func(n int, first bool) [][]wmStep {
		k := [2]int{n, 0}
		if first {
			k[1] = 1
		}
		if v, ok := cache[k]; ok {
			return v
		}
		v := gen(n, first)
		cache[k] = v
		return v
	}
	var sets [][][]wmStep
	// compositions of total into k positive parts; rest clients non-decreasing by (len, lexicographic)
	var build func(k int, remaining int, cur [][]wmStep)
	less := func(a, b []wmStep) bool { return scriptString([][]wmStep{a}) < scriptString([][]wmStep{b}) }
	build = func(k int, remaining int, cur [][]wmStep) {
		if remaining == 0 {
			sets = append(sets, append([][]wmStep(nil), cur...))
			return
		}
		if len(cur) == k {
			return
		}
		for n := 1; n <= remaining; n++ {
			for _, sc := range get(n, len(cur) == 0) {
				if len(cur) >= 2 && less(sc, cur[len(cur)-1]) {
					continue
				}
				build(k, remaining-n, append(cur, sc))
			}
		}
	}
	build(maxClients, total, nil)
	return sets
}

// usefulWmScript drops script sets in which nothing can interact: fewer than two operations that
// touch the mark, or waits only.
func usefulWmScript(s [][]wmStep) bool {
	marks := 0
	for _, sc := range s {
		for _, st := range sc {
			if st.Op == "B" || st.Op == "D" {
				marks++
			}
		}
	}
	return marks >= 1
}

func c13Units(tier string) []Unit {
	type cfg struct {
		total, clients int
		maxT           uint64
		cancel         bool
		bound          []int
	}
	var cfgs []cfg
	if tier == "quick" {
		cfgs = []cfg{
			{2, 2, 2, true, []int{0, 1, 2, 3}},
			{3, 3, 2, true, []int{0, 1, 2}},
			{4, 3, 2, false, []int{0, 1, 2}},
		}
	} else {
		cfgs = []cfg{
			{2, 2, 3, true, []int{0, 1, 2, 3, 4}},
			{3, 3, 3, true, []int{0, 1, 2, 3}},
			{4, 3, 3, true, []int{0, 1, 2, 3}},
			{5, 3, 2, false, []int{0, 1, 2}},
			{6, 3, 2, false, []int{0, 1, 2}},
		}
	}
	var units []Unit
	const chunk = 400
	for _, cf := range cfgs {
		cf := cf
		all := genWmScripts(cf.total, cf.clients, cf.maxT, cf.cancel)
		var sets [][][]wmStep
		for _, s := range all {
			if usefulWmScript(s) {
				sets = append(sets, s)
			}
		}
		for lo := 0; lo < len(sets); lo += chunk {
			hi := lo + chunk
			if hi > len(sets) {
				hi = len(sets)
			}
			part := sets[lo:hi]
			name := fmt.Sprintf("scripts/ops=%d/clients<=%d/idx<=%d/cancel=%v/%d-%d", cf.total, cf.clients, cf.maxT, cf.cancel, lo, hi)
			units = append(units, Unit{Name: name, Weight: cf.total, Run: func(c *Ctx) {
				for i, s := range part {
					if c.Replay != nil {
						var rc struct{ Index int }
						jsonUnmarshal(c.Replay.Case, &rc)
						if rc.Index != i {
							continue
						}
						fmt.Println("script set:", scriptString(s))
					}
					if c.TimeUp() {
						c.Res.Exhaustive = false
						c.Cap("deadline reached before all script sets of this unit were explored")
						break
					}
					var obs string
					nv := len(c.Res.Violations)
					ExploreSched(c, wmScenario(s, &obs), SchedOpts{Budgets: cf.bound[len(cf.bound)-1:], MaxEnv: -1, MaxSteps: 20000,
						Outcome: func() string { return obs },
						NT:      func() string { return scriptString(s) + "#" + obs },
						Sample:  func() any { return map[string]any{"scripts": scriptString(s), "result": obs} }})
					for k := nv; k < len(c.Res.Violations); k++ {
						c.Res.Violations[k].Case = jsonMarshal(map[string]any{"Index": i, "scripts": scriptString(s)})
						c.Res.Violations[k].Detail = "scripts: " + scriptString(s) + "\n" + c.Res.Violations[k].Detail
					}
				}
			}})
		}
	}
	// many marks in flight: more than the channel buffer (100)
	overflowN := []int{101}
	burstPairs := []int{50}
	if tier == "thorough" {
		overflowN = []int{101, 103, 150}
		burstPairs = []int{49, 50, 51}
	}
	for _, n := range overflowN {
		n := n
		units = append(units, Unit{Name: fmt.Sprintf("overflow/marks=%d", n), Weight: 10, Run: func(c *Ctx) {
			var a, b []wmStep
			for i := 1; i <= n; i++ {
				a = append(a, wmStep{"B", uint64(i)})
			}
			for i := n; i >= 1; i-- {
				a = append(a, wmStep{"D", uint64(i)})
			}
			b = []wmStep{{"B", uint64(n + 1)}, {"W", uint64(n)}, {"D", uint64(n + 1)}, {"W", uint64(n + 1)}}
			s := [][]wmStep{a, b}
			var obs string
			bud := []int{0, 1}
			if tier == "thorough" {
				bud = []int{0, 1, 2}
			}
			ExploreSched(c, wmScenario(s, &obs), SchedOpts{Budgets: bud, MaxEnv: -1, MaxSteps: 50000,
				Outcome: func() string { return obs },
				NT:      func() string { return fmt.Sprintf("overflow%d#%s", n, obs) },
				Sample: func() any {
					return map[string]any{"scripts": fmt.Sprintf("B1..B%d D%d..D1 | B%d W%d D%d W%d", n, n, n+1, n, n+1, n+1), "result": obs}
				}})
		}})
	}
	// several waiters on ONE index, one of them with a context that is cancelled before the index is finished: the
	// others must still be released (hand-written: the generated scripts have at most three operations per set here)
	for si, s := range [][][]wmStep{
		{{{"B", 1}, {"X", 0}, {"D", 1}}, {{"W", 1}}, {{"V", 1}}},
		{{{"B", 2}, {"X", 0}, {"D", 2}}, {{"W", 2}}, {{"V", 2}}, {{"W", 2}}},
		{{{"B", 1}, {"B", 2}, {"X", 0}, {"D", 2}, {"D", 1}}, {{"W", 2}}, {{"V", 2}}, {{"V", 1}}},
	} {
		si, s := si, s
		units = append(units, Unit{Name: fmt.Sprintf("waiters-on-one-index/%d", si), Weight: 8, Run: func(c *Ctx) {
			var obs string
			bud := []int{0, 1, 2}
			if tier == "thorough" {
				bud = []int{0, 1, 2, 3}
			}
			nv := len(c.Res.Violations)
			ExploreSched(c, wmScenario(s, &obs), SchedOpts{Delay: true, Budgets: bud, MaxEnv: -1, MaxSteps: 20000,
				Outcome: func() string { return obs },
				NT:      func() string { return scriptString(s) + "#" + obs },
				Sample:  func() any { return map[string]any{"scripts": scriptString(s), "result": obs} }})
			for k := nv; k < len(c.Res.Violations); k++ {
				c.Res.Violations[k].Detail = "scripts: " + scriptString(s) + "\n" + c.Res.Violations[k].Detail
			}
		}})
	}
	// hundreds of indices tracked at once behind one open index, then the drain: 1 stays open while 2..n are begun
	// and all but one of them finished, then 1 finishes (internal containers grow and shrink across their thresholds)
	holders := []int{300}
	if tier == "thorough" {
		holders = []int{300, 700, 1500}
	}
	for _, n := range holders {
		n := n
		units = append(units, Unit{Name: fmt.Sprintf("long-holder/%d-indices", n), Weight: 10, Run: func(c *Ctx) {
			hold := uint64(n - 100)
			a := []wmStep{{"B", 1}}
			for i := 2; i <= n; i++ {
				a = append(a, wmStep{"B", uint64(i)})
				if uint64(i) != hold {
					a = append(a, wmStep{"D", uint64(i)})
				}
			}
			a = append(a, wmStep{"D", 1}, wmStep{"W", hold - 1}, wmStep{"B", uint64(n + 1)}, wmStep{"D", uint64(n + 1)}, wmStep{"D", hold}, wmStep{"W", uint64(n + 1)})
			s := [][]wmStep{a, {{"W", 1}}}
			var obs string
			ExploreSched(c, wmScenario(s, &obs), SchedOpts{Budgets: []int{0}, MaxEnv: -1, MaxSteps: 400000,
				Outcome: func() string { return obs },
				NT:      func() string { return fmt.Sprintf("holder%d#%s", n, obs) },
				Sample: func() any {
					return map[string]any{"scripts": fmt.Sprintf("B1 (B2 D2 .. B%d D%d, %d stays open) D1 W%d B%d D%d D%d W%d | W1", n, n, hold, hold-1, n+1, n+1, hold, n+1), "result": obs}
				}})
		}})
	}
	// a burst that fills the channel buffer with finished work, then an index that stays open while a higher one is
	// begun and finished: marks must be counted in the order in which their calls returned, also beyond the buffer
	for _, pairs := range burstPairs {
		pairs := pairs
		units = append(units, Unit{Name: fmt.Sprintf("overflow/burst-of-%d-pairs-then-open-index", pairs), Weight: 10, Run: func(c *Ctx) {
			var a []wmStep
			for i := 0; i < pairs; i++ {
				a = append(a, wmStep{"B", 1}, wmStep{"D", 1})
			}
			a = append(a, wmStep{"B", 2}, wmStep{"B", 3}, wmStep{"D", 3})
			s := [][]wmStep{a, {{"W", 1}}}
			var obs string
			bud := []int{0, 1}
			if tier == "thorough" {
				bud = []int{0, 1, 2}
			}
			ExploreSched(c, wmScenario(s, &obs), SchedOpts{Budgets: bud, MaxEnv: -1, MaxSteps: 50000,
				Outcome: func() string { return obs },
				NT:      func() string { return fmt.Sprintf("burst%d#%s", pairs, obs) },
				Sample: func() any {
					return map[string]any{"scripts": fmt.Sprintf("(B1 D1)x%d B2 B3 D3 | W1", pairs), "result": obs}
				}})
		}})
	}
	return units
}

func init() {
	Props["C13"] = &PropMeta{
		Units: c13Units,
		Rule: "every well-formed client script set (Begin/Done/WaitForMark/cancel over indices 1..3, 1-3 client goroutines, optional leading recovery Done) " +
			"is run against the real watermark.process goroutine under every schedule within the preemption bound; an execution is non-trivial when it is " +
			"distinct in (script set, final DoneUntil, reference bounds L/U, finished clients, blocked-forever flag)",
		Assumptions: []string{
			"sequentially consistent interleavings at sync/atomic, channel and select operations (the shims); data-race freedom is checked by C12",
			"preemption-bounded: context switches at blocking points are free, preemptions limited per the unit's bound",
			"indices are the ones that were begun or finished; between the reference lower and upper bound either behaviour is accepted",
		},
		QuickS: 120, ThoroughS: 900,
	}
}
