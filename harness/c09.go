package harness

import (
	"fmt"
	"sort"
	"strings"

	"github.com/B1NARY-GR0UP/originium"

	"verif/shim/vos"
	"verif/vsched"
)

// c09Op is one step of the explicit-state search on a real levelManager.
//
//	F<shape>  flush one memtable image (followed by checkAndCompact, as DB.run does)
//	W<n>      move the discard watermark to newest-n (n = 0, 1)
//	R         rebuild the manager from the files (recover)
type c09Op struct {
	Kind  string
	Shape int
	N     uint64
	Key   string // F with a non-empty Key: flush a table holding one (new) version of this key
}

func (o c09Op) String() string {
	switch o.Kind {
	case "F":
		if o.Key != "" {
			return "F(" + o.Key + ")"
		}
		return "F(" + c09Shapes[o.Shape].name + ")"
	case "W":
		return fmt.Sprintf("W(newest-%d)", o.N)
	}
	return o.Kind
}

type c09Shape struct {
	name string
	ents []ver // Ts filled in at flush time (increasing in list order)
}

var c09Shapes = []c09Shape{
	{"a", []ver{{Key: "a"}}},
	{"a†", []ver{{Key: "a", Tomb: true}}},
	{"a!", []ver{{Key: "a!"}}},
	{"a!†", []ver{{Key: "a!", Tomb: true}}},
	{"b", []ver{{Key: "b"}}},
	{"b†", []ver{{Key: "b", Tomb: true}}},
	{"a,b", []ver{{Key: "a"}, {Key: "b"}}},
	{"a,a!†", []ver{{Key: "a"}, {Key: "a!", Tomb: true}}},
	{"a,a", []ver{{Key: "a"}, {Key: "a"}}},
	{"a†,a", []ver{{Key: "a", Tomb: true}, {Key: "a"}}},
	// a table that ENDS with a deletion marker ("a!@t" sorts before "a@t'"): the input range of its compaction ends at
	// a@t', and a deeper table that starts with an older version of a lies just outside that range
	{"a!,a†", []ver{{Key: "a!"}, {Key: "a", Tomb: true}}},
}

const c09FirstVersion = 8 // versions cross the 9 -> 10 digit change

type c09Cfg struct {
	L0, Ratio, Block int
	Shapes           []int
	MaxFlush         int
	MaxOps           int
}

type c09State struct {
	key       string
	tables    int
	levels    int
	discarded int // versions no longer stored anywhere
}

// c09Run replays seq on a fresh manager inside a scheduled execution (the oracle's watermark
// goroutines need a scheduler) and checks the invariant after the last operation.
func c09Run(cf c09Cfg, seq []c09Op, verbose bool) (st c09State, verr error) {
	var all []ver
	next := uint64(c09FirstVersion)
	maxWM := uint64(0)
	res := vsched.Run(vsched.Default{}, vsched.RunOpts{MaxSteps: 200000}, func() {
		vos.MkdirAll("/d", 0o755)
		lm := originium.NewVerifLM("/d", cf.L0, cf.Ratio, cf.Block, true)
		recovered := false
		check := func(stage string) {
			if verr != nil {
				return
			}
			keys := map[string]bool{"zz": true}
			for _, v := range all {
				keys[v.Key] = true
			}
			for k := range keys {
				for ts := maxWM; ts <= next+1; ts++ {
					want, wok := modelLookup(all, k, ts)
					got, gok := lm.Lookup(k, ts)
					wv, gv := "absent", "absent"
					if wok && !want.Tomb {
						wv = string(want.value())
					}
					if gok && !got.Tombstone {
						gv = string(got.Value)
					}
					if wv != gv {
						kind := "stale-or-wrong"
						switch {
						case gv == "absent":
							kind = "lost"
						case wv == "absent":
							kind = "resurrected"
						}
						verr = oerr(fmt.Sprintf("c09/%s/%s", kind, stage),
							"after %v (watermark %d): lookup(%q, ts=%d) = %s, model says %s (user-visible value: %s vs %s); tables: %s",
							seq, maxWM, k, ts, fmtEntry(got, gok), fmtVer(want, wok), gv, wv, dumpTables(lm))
						return
					}
				}
			}
		}
		for _, op := range seq {
			switch op.Kind {
			case "F":
				var vs []ver
				shape := c09Shapes[op.Shape].ents
				if op.Key != "" {
					shape = []ver{{Key: op.Key}}
				}
				for _, e := range shape {
					e.Ts = next
					next++
					vs = append(vs, e)
				}
				all = append(all, vs...)
				if err := lm.Flush(entriesOf(vs)); err != nil {
					verr = oerr("c09/flush-error", "%v", err)
					return
				}
				// lookups after every step, not only the last: reads warm whatever the read path keeps between calls
				// (a cache, an open file), and a later flush or compaction must not leave that state stale
				check("after-flush")
				lm.Compact()
				check("after-compaction")
			case "W":
				if next-1 >= c09FirstVersion+op.N {
					w := next - 1 - op.N
					lm.SetWatermark(w)
					vsched.WaitQuiescent()
					if lm.Watermark() > maxWM {
						maxWM = lm.Watermark()
					}
				}
			case "R":
				lm, _ = lm.Reopen()
				recovered = true
				check("after-recover")
			}
			if verbose {
				fmt.Printf("  %-14s watermark=%d tables: %s\n", op, maxWM, dumpTables(lm))
			}
		}
		// canonical state
		tabs := lm.Tables()
		var parts []string
		stored := map[string]bool{}
		lv := map[int]bool{}
		for _, t := range tabs {
			var es []string
			for _, e := range t.Entries {
				es = append(es, fmtEntry(e, true))
				stored[e.Key] = true
			}
			lv[t.Level] = true
			parts = append(parts, fmt.Sprintf("L%d#%d[%s]", t.Level, t.Idx, strings.Join(es, ",")))
		}
		sort.Strings(parts)
		st.tables = len(tabs)
		st.levels = len(lv)
		for _, v := range all {
			if !stored[v.entry().Key] {
				st.discarded++
			}
		}
		st.key = fmt.Sprintf("wm=%d next=%d rec=%v %s", maxWM, next, recovered, strings.Join(parts, " "))
	})
	if verr == nil {
		if err := StdCheck(res); err != nil {
			oe := err.(*OracleErr)
			verr = oerr("c09/"+oe.Sig, "after %v: %s", seq, oe.Detail)
		}
	}
	return
}

func fmtVer(v ver, ok bool) string {
	if !ok {
		return "not-found"
	}
	return fmtEntry(v.entry(), true)
}

func dumpTables(lm *originium.VerifLM) (s string) {
	defer func() {
		if r := recover(); r != nil {
			s = fmt.Sprintf("<cannot read tables: %v>", r)
		}
	}()
	var parts []string
	for _, t := range lm.Tables() {
		var es []string
		for _, e := range t.Entries {
			es = append(es, fmtEntry(e, true))
		}
		parts = append(parts, fmt.Sprintf("L%d#%d[%s]", t.Level, t.Idx, strings.Join(es, " ")))
	}
	return strings.Join(parts, " ")
}

func c09Search(c *Ctx, cf c09Cfg) {
	if c.Replay != nil {
		var seq []c09Op
		jsonUnmarshal(c.Replay.Case, &seq)
		fmt.Printf("config L0TargetNum=%d LevelRatio=%d block=%d, sequence %v\n", cf.L0, cf.Ratio, cf.Block, seq)
		_, err := c09Run(cf, seq, true)
		if err != nil {
			oe := err.(*OracleErr)
			fmt.Println(oe.Error())
			c.Violation(oe.Sig, oe.Detail, nil, seq)
		}
		return
	}
	seen := map[string]bool{}
	frontier := [][]c09Op{nil}
	st0, _ := c09Run(cf, nil, false)
	seen[st0.key] = true
	c.Res.States = 1
	for depth := 1; depth <= cf.MaxOps && len(frontier) > 0; depth++ {
		var nextFrontier [][]c09Op
		for _, seq := range frontier {
			flushes := 0
			for _, o := range seq {
				if o.Kind == "F" {
					flushes++
				}
			}
			var ops []c09Op
			if flushes < cf.MaxFlush {
				for _, s := range cf.Shapes {
					ops = append(ops, c09Op{Kind: "F", Shape: s})
				}
			}
			if flushes > 0 {
				lastKind := seq[len(seq)-1].Kind
				if lastKind != "W" {
					ops = append(ops, c09Op{Kind: "W", N: 0}, c09Op{Kind: "W", N: 1})
				}
				if lastKind != "R" {
					ops = append(ops, c09Op{Kind: "R"})
				}
			}
			for _, op := range ops {
				if c.TimeUp() {
					c.Res.Exhaustive = false
					c.Cap(fmt.Sprintf("deadline reached at depth %d", depth))
					return
				}
				ns := append(append([]c09Op(nil), seq...), op)
				st, err := c09Run(cf, ns, false)
				c.Res.Executions++
				c.Res.Transitions++
				c.Res.Evaluations++
				if err != nil {
					oe := err.(*OracleErr)
					c.Violation(oe.Sig, oe.Detail, nil, ns)
					if len(c.Res.Violations) >= 6 {
						c.Res.Exhaustive = false
						c.Cap("stopped after 6 distinct violation signatures")
						return
					}
					continue // do not extend a violating sequence
				}
				if st.levels >= 2 || st.discarded > 0 {
					c.NT(st.key)
				}
				c.Outcome(fmt.Sprintf("tables=%d levels=%d discarded-versions=%d", st.tables, st.levels, st.discarded))
				if !seen[st.key] {
					seen[st.key] = true
					c.Res.States++
					nextFrontier = append(nextFrontier, ns)
					if st.discarded > 0 && st.levels >= 2 {
						c.Sample(map[string]any{"sequence": fmt.Sprint(ns), "state": st.key})
					}
				}
			}
		}
		frontier = nextFrontier
		c.SetInfo("depth_completed", depth)
	}
}

func c09Units(tier string) []Unit {
	var units []Unit
	type geo struct{ l0, ratio int }
	geos := []geo{{1, 1}, {1, 2}, {2, 1}}
	blocks := []int{1, 4096}
	shapes := []int{0, 1, 2, 4, 6, 8}
	maxFlush, maxOps := 3, 6
	if tier == "thorough" {
		shapes = []int{0, 1, 2, 3, 4, 5, 6, 7, 8, 9}
		maxFlush, maxOps = 4, 8
	}
	for _, g := range geos {
		for _, b := range blocks {
			// one unit per first flush shape: the search below a first operation is independent
			for _, first := range shapes {
				// shape 10 only after the first flush (keeps the number of quick units)
				cf := c09Cfg{L0: g.l0, Ratio: g.ratio, Block: b, Shapes: append(append([]int{}, shapes...), 10), MaxFlush: maxFlush, MaxOps: maxOps}
				first := first
				units = append(units, Unit{Name: fmt.Sprintf("L0=%d/ratio=%d/block=%d/first=%s", g.l0, g.ratio, b, c09Shapes[first].name), Weight: 1, Run: func(c *Ctx) {
					c09SearchFrom(c, cf, first)
				}})
			}
		}
	}
	// long histories: more tables in one level than one decimal digit of table index, a recover at every position
	for _, g := range []geo{{1, 20}, {14, 10}} {
		g := g
		units = append(units, Unit{Name: fmt.Sprintf("long-run/L0=%d/ratio=%d/recover-at-every-position", g.l0, g.ratio), Weight: 3, Run: func(c *Ctx) {
			cf := c09Cfg{L0: g.l0, Ratio: g.ratio, Block: 4096}
			if c.Replay != nil {
				c09Search(c, cf)
				return
			}
			const n = 13
			for at := 0; at <= n; at++ {
				var seq []c09Op
				for i := 0; i <= n; i++ {
					if i == at {
						seq = append(seq, c09Op{Kind: "R"})
					}
					if i < n {
						seq = append(seq, c09Op{Kind: "F", Key: fmt.Sprintf("g%02d", i)})
					}
				}
				// one more table and compaction on the recovered handles, an overwrite of an old key, then recover again
				seq = append(seq, c09Op{Kind: "F", Key: "g05"}, c09Op{Kind: "F", Key: "g99"}, c09Op{Kind: "R"})
				// the invariant is checked after the last operation of a sequence: check every prefix that ends in F or R
				for l := 1; l <= len(seq); l++ {
					if l < len(seq) && l < n {
						continue // early prefixes are covered by the breadth-first units
					}
					st, err := c09Run(cf, seq[:l], false)
					c.Res.Executions++
					c.Res.Transitions++
					c.Res.Evaluations++
					if err != nil {
						oe := err.(*OracleErr)
						c.Violation(oe.Sig, oe.Detail, nil, seq[:l])
						break
					}
					c.Res.States++
					c.NT(st.key)
					c.Outcome(fmt.Sprintf("tables=%d levels=%d discarded-versions=%d", min(st.tables, 15), st.levels, st.discarded))
				}
			}
		}})
	}
	return units
}

// c09SearchFrom restricts the search to sequences whose first operation is F(first).
func c09SearchFrom(c *Ctx, cf c09Cfg, first int) {
	if c.Replay != nil {
		c09Search(c, cf)
		return
	}
	seen := map[string]bool{}
	start := []c09Op{{Kind: "F", Shape: first}}
	st, err := c09Run(cf, start, false)
	c.Res.Executions++
	c.Res.Transitions++
	c.Res.Evaluations++
	if err != nil {
		oe := err.(*OracleErr)
		c.Violation(oe.Sig, oe.Detail, nil, start)
		return
	}
	seen[st.key] = true
	c.Res.States = 1
	frontier := [][]c09Op{start}
	for depth := 2; depth <= cf.MaxOps && len(frontier) > 0; depth++ {
		var nextFrontier [][]c09Op
		for _, seq := range frontier {
			flushes := 0
			for _, o := range seq {
				if o.Kind == "F" {
					flushes++
				}
			}
			var ops []c09Op
			if flushes < cf.MaxFlush {
				for _, s := range cf.Shapes {
					ops = append(ops, c09Op{Kind: "F", Shape: s})
				}
			}
			lastKind := seq[len(seq)-1].Kind
			if lastKind != "W" {
				ops = append(ops, c09Op{Kind: "W", N: 0}, c09Op{Kind: "W", N: 1})
			}
			if lastKind != "R" {
				ops = append(ops, c09Op{Kind: "R"})
			}
			for _, op := range ops {
				if c.TimeUp() {
					c.Res.Exhaustive = false
					c.Cap(fmt.Sprintf("deadline reached at depth %d", depth))
					return
				}
				ns := append(append([]c09Op(nil), seq...), op)
				st, err := c09Run(cf, ns, false)
				c.Res.Executions++
				c.Res.Transitions++
				c.Res.Evaluations++
				if err != nil {
					oe := err.(*OracleErr)
					c.Violation(oe.Sig, oe.Detail, nil, ns)
					if len(c.Res.Violations) >= 6 {
						c.Res.Exhaustive = false
						c.Cap("stopped after 6 distinct violation signatures")
						return
					}
					continue
				}
				if st.levels >= 2 || st.discarded > 0 {
					c.NT(st.key)
				}
				c.Outcome(fmt.Sprintf("tables=%d levels=%d discarded-versions=%d", st.tables, st.levels, st.discarded))
				if !seen[st.key] {
					seen[st.key] = true
					c.Res.States++
					nextFrontier = append(nextFrontier, ns)
					if st.discarded > 0 && st.levels >= 2 {
						c.Sample(map[string]any{"sequence": fmt.Sprint(ns), "state": st.key})
					}
				}
			}
		}
		frontier = nextFrontier
		c.SetInfo("depth_completed", depth)
	}
}

func init() {
	Props["C09"] = &PropMeta{
		Units: c09Units,
		Rule: "(plus long histories of 13 single-key tables in one level with a recover at every position) breadth-first explicit-state search over operation sequences on a real levelManager (flush of a memtable image from a shape menu followed by checkAndCompact, " +
			"moving the discard watermark through the real read mark, rebuilding the manager with recover()), deduplicated on the canonical state " +
			"(levels -> tables -> entries, watermark, next version, live/recovered); after the last operation of every sequence every (user key, ts >= largest watermark) lookup " +
			"is compared with the versioned model of everything ever flushed; a state is non-trivial when it has tables on two levels or a version has been discarded",
		Assumptions: []string{
			"sequential use of the levelManager (one flusher), as DB.run drives it; scheduling of the oracle's watermark goroutines under the default schedule",
			"user-visible comparison: a deletion marker and a missing key both read as absent",
			"versions are assigned in increasing order starting at 8 (crossing the 9->10 digit boundary)",
		},
		QuickS: 100, ThoroughS: 1200,
	}
}
