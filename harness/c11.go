package harness

import (
	"bytes"
	"fmt"
	"strings"

	"github.com/B1NARY-GR0UP/originium"
	"github.com/B1NARY-GR0UP/originium/table"
	"github.com/B1NARY-GR0UP/originium/types"
	"github.com/B1NARY-GR0UP/originium/wal"

	"verif/shim/vos"
	"verif/shim/vsync"
	"verif/vsched"
)

// ---------------------------------------------------------------- alphabets

func c11Long(n int, fill byte) string { return strings.Repeat(string([]byte{fill}), n) }

type c11Ent struct {
	K, V string
	Tomb bool
	Ver  int64
}

func (e c11Ent) entry() types.Entry {
	return types.Entry{Key: e.K, Value: []byte(e.V), Tombstone: e.Tomb, Version: e.Ver}
}

func c11Short(s string) string {
	if len(s) > 24 {
		return fmt.Sprintf("%q…(%d bytes)", s[:8], len(s))
	}
	return fmt.Sprintf("%q", s)
}

func (e c11Ent) String() string {
	return fmt.Sprintf("{k=%s v=%s tomb=%v ver=%d}", c11Short(e.K), c11Short(e.V), e.Tomb, e.Ver)
}

func c11Same(a, b []types.Entry) bool {
	if len(a) != len(b) {
		return false
	}
	for i := range a {
		if a[i].Key != b[i].Key || !bytes.Equal(a[i].Value, b[i].Value) || a[i].Tombstone != b[i].Tombstone || a[i].Version != b[i].Version {
			return false
		}
	}
	return true
}

func c11DeepCopy(es []types.Entry) []types.Entry {
	out := make([]types.Entry, len(es))
	for i, e := range es {
		out[i] = e
		out[i].Key = strings.Clone(e.Key)
		if e.Value != nil {
			out[i].Value = append([]byte{}, e.Value...)
		}
	}
	return out
}

func c11List(es []c11Ent) string {
	var p []string
	for _, e := range es {
		p = append(p, e.String())
	}
	return "[" + strings.Join(p, " ") + "]"
}

func c11Entries(es []c11Ent) []types.Entry {
	r := make([]types.Entry, len(es))
	for i, e := range es {
		r[i] = e.entry()
	}
	return r
}

// sizeClass names the largest field of a list (signature part for oversize findings).
func c11SizeClass(es []c11Ent) string {
	m := 0
	for _, e := range es {
		m = max(m, len(e.K), len(e.V))
	}
	switch {
	case m >= 65536:
		return "field>=65536"
	case m == 65535:
		return "field=65535"
	}
	return "small"
}

// ---------------------------------------------------------------- round trips

// rtData: Data.Encode -> Data.Decode. An encoder may refuse (error); silent corruption is the violation.
func c11RtData(c *Ctx, es []c11Ent) {
	in := c11Entries(es)
	d := table.Data{Entries: in}
	b, err := d.Encode()
	c.Res.Executions++
	c.Res.Transitions += int64(len(es))
	c.Res.Evaluations++
	if err != nil {
		c.Outcome("data: encoder refused " + c11SizeClass(es))
		return
	}
	b = append([]byte(nil), b...) // the stability half is checked separately
	var out table.Data
	if err := out.Decode(b); err != nil {
		c.Violation("c11/data/decode-error/"+c11SizeClass(es), fmt.Sprintf("Data %s: decode of the encoder's own output failed: %v", c11List(es), err), nil, map[string]any{"codec": "data", "ents": es})
		return
	}
	if !c11Same(in, out.Entries) {
		c.Violation("c11/data/mismatch/"+c11SizeClass(es), fmt.Sprintf("Data %s decodes to %d entries that differ from the original", c11List(es), len(out.Entries)), nil, map[string]any{"codec": "data", "ents": es})
	}
}

// rtTable: table.Build -> file -> recover/fetch (through a level manager), and the WAL.
func c11RtTable(c *Ctx, es []c11Ent, block int) {
	vos.SetFS(vos.NewFS())
	vos.MkdirAll("/d", 0o755)
	in := c11Entries(es)
	c.Res.Executions++
	c.Res.Transitions += int64(len(es))
	c.Res.Evaluations++
	var perr any
	var got []types.Entry
	func() {
		defer func() { perr = recover() }()
		lm := originium.NewVerifLM("/d", 100, 10, block, false)
		if err := lm.Flush(in); err != nil {
			perr = err
			return
		}
		rec, _ := lm.Reopen()
		for _, t := range rec.Tables() {
			got = append(got, t.Entries...)
		}
	}()
	if perr != nil {
		if c11SizeClass(es) != "small" {
			c.Outcome("table: builder refused " + c11SizeClass(es))
			return
		}
		c.Violation("c11/table/panic", fmt.Sprintf("table of %s (block %d): %v", c11List(es), block, perr), nil, map[string]any{"codec": "table", "ents": es, "block": block})
		return
	}
	if !c11Same(in, got) {
		c.Violation("c11/table/mismatch/"+c11SizeClass(es), fmt.Sprintf("table of %s (block %d) reads back %d entries that differ from the original", c11List(es), block, len(got)), nil, map[string]any{"codec": "table", "ents": es, "block": block})
	}
}

// rtWAL: records written in `calls` Write calls, read back by the same handle and after wal.Open.
func c11RtWAL(c *Ctx, es []c11Ent, split int) {
	vos.SetFS(vos.NewFS())
	vos.MkdirAll("/w", 0o755)
	in := c11Entries(es)
	c.Res.Executions++
	c.Res.Transitions += int64(len(es))
	c.Res.Evaluations++
	w, err := wal.Create("/w")
	if err != nil {
		c.Violation("c11/wal/create", err.Error(), nil, nil)
		return
	}
	var werr error
	if split <= 0 || split >= len(in) {
		werr = w.Write(in...)
	} else {
		if werr = w.Write(in[:split]...); werr == nil {
			werr = w.Write(in[split:]...)
		}
	}
	if werr != nil {
		c.Outcome("wal: writer refused " + c11SizeClass(es))
		return
	}
	cs := map[string]any{"codec": "wal", "ents": es, "split": split}
	got, err := w.Read()
	if err != nil || !c11Same(in, got) {
		c.Violation("c11/wal/mismatch/"+c11SizeClass(es), fmt.Sprintf("WAL of %s (split %d) reads back %d entries (err %v) that differ from the original", c11List(es), split, len(got), err), nil, cs)
		return
	}
	snap := c11DeepCopy(got)
	if err := w.Write(in...); err == nil {
		if again, err := w.Read(); err != nil || len(again) != 2*len(in) || !c11Same(in, again[:len(in)]) || !c11Same(in, again[len(in):]) {
			c.Violation("c11/wal/mismatch-second-batch/"+c11SizeClass(es), fmt.Sprintf("WAL of %s written twice reads back %d entries (err %v) that differ from the original twice", c11List(es), len(again), err), nil, cs)
			return
		}
		if !c11Same(got, snap) {
			c.Violation("c11/unstable-decoded/WAL.Read", fmt.Sprintf("entries handed out by WAL.Read of %s changed after a later Write/Read", c11List(es)), nil, cs)
			return
		}
		in = append(append([]types.Entry{}, in...), in...)
	}
	w.Close()
	names := vos.CurFS().Names()
	w2, err := wal.Open(names[0])
	if err != nil {
		c.Violation("c11/wal/open", err.Error(), nil, cs)
		return
	}
	got, err = w2.Read()
	if err != nil || !c11Same(in, got) {
		c.Violation("c11/wal/mismatch-reopened/"+c11SizeClass(es), fmt.Sprintf("reopened WAL of %s reads back %d entries (err %v) that differ from the original", c11List(es), len(got), err), nil, cs)
	}
}

func c11RtIndex(c *Ctx, keys []string) {
	nums := []uint64{0, 1, 1 << 32, 1<<63 - 1, 1<<64 - 1}
	n := 0
	for _, a := range keys {
		for _, b := range keys {
			for _, extra := range []int{0, 1} {
				ix := table.Index{DataBlock: table.BlockHandle{Offset: nums[n%5], Length: nums[(n+1)%5]}}
				ix.Entries = append(ix.Entries, table.IndexEntry{StartKey: a, EndKey: b, DataHandle: table.BlockHandle{Offset: nums[(n+2)%5], Length: nums[(n+3)%5]}})
				if extra == 1 {
					ix.Entries = append(ix.Entries, table.IndexEntry{StartKey: b, EndKey: a, DataHandle: table.BlockHandle{Offset: nums[(n+4)%5], Length: nums[n%5]}})
				}
				n++
				c.Res.Executions++
				c.Res.Evaluations++
				c.Res.Transitions += int64(len(ix.Entries))
				big := "small"
				if len(a) >= 65536 || len(b) >= 65536 {
					big = "field>=65536"
				}
				enc, err := ix.Encode()
				if err != nil {
					c.Outcome("index: encoder refused " + big)
					continue
				}
				enc = append([]byte(nil), enc...)
				var out table.Index
				if err := out.Decode(enc); err != nil {
					c.Violation("c11/index/decode-error/"+big, fmt.Sprintf("Index start=%s end=%s: %v", c11Short(a), c11Short(b), err), nil, nil)
					continue
				}
				same := out.DataBlock == ix.DataBlock && len(out.Entries) == len(ix.Entries)
				for i := 0; same && i < len(ix.Entries); i++ {
					same = out.Entries[i] == ix.Entries[i]
				}
				if !same {
					c.Violation("c11/index/mismatch/"+big, fmt.Sprintf("Index start=%s end=%s decodes differently", c11Short(a), c11Short(b)), nil, nil)
				}
				c.NT(fmt.Sprintf("index %d %d %d", len(a), len(b), extra))
			}
		}
	}
	// footer and meta: numeric boundary values
	for _, a := range nums {
		for _, b := range nums {
			f := table.Footer{MetaBlock: table.BlockHandle{Offset: a, Length: b}, IndexBlock: table.BlockHandle{Offset: b, Length: a}, Magic: 0x5bc2aa5766250562}
			enc, err := f.Encode()
			c.Res.Executions++
			c.Res.Evaluations++
			c.Res.Transitions++
			if err != nil {
				c.Violation("c11/footer/encode", err.Error(), nil, nil)
				continue
			}
			enc = append([]byte(nil), enc...)
			var out table.Footer
			if err := out.Decode(enc); err != nil || out != f {
				c.Violation("c11/footer/mismatch", fmt.Sprintf("Footer %+v decodes to %+v (err %v)", f, out, err), nil, nil)
			}
			m := table.Meta{CreatedUnix: int64(a), Level: b}
			enc, err = m.Encode()
			if err != nil {
				c.Violation("c11/meta/encode", err.Error(), nil, nil)
				continue
			}
			enc = append([]byte(nil), enc...)
			var mo table.Meta
			if err := mo.Decode(enc); err != nil || mo != m {
				c.Violation("c11/meta/mismatch", fmt.Sprintf("Meta %+v decodes to %+v (err %v)", m, mo, err), nil, nil)
			}
			c.NT(fmt.Sprintf("footer %d %d", a, b))
		}
	}
}

// ---------------------------------------------------------------- stability of returned bytes

// c11Stability: two goroutines use every encoder, table.Build and the WAL; each keeps the slices
// it was handed. Every schedule (yield points between calls and at the WAL's lock/file operations)
// and every answer of the buffer pool is explored. Oracle: a kept slice never changes and still
// decodes to its source.
func c11StabilityScenario(variant int, obs *string) vsched.Scenario {
	e1 := []types.Entry{{Key: "a@3", Value: []byte("value-a3"), Version: 3}, {Key: "a@1", Value: []byte("value-a1"), Version: 1}, {Key: "b@2", Value: []byte{}, Tombstone: true, Version: 2}}
	e2 := []types.Entry{{Key: "x@9", Value: []byte("XXXXXXXXXXXXXXXXXXXXXXXXXXXXXXXXXXXXXXXX"), Version: 9}, {Key: "y@8", Value: []byte("YYYY"), Version: 8}}
	return func() (func(), func(*vsched.Exec), func(vsched.Result) error) {
		type kept struct {
			what string
			b    []byte
			snap []byte
			dec  func(b []byte) error
		}
		var keeps []*kept
		var verr error
		keep := func(what string, b []byte, dec func([]byte) error) {
			keeps = append(keeps, &kept{what, b, append([]byte(nil), b...), dec})
		}
		decData := func(want []types.Entry) func([]byte) error {
			return func(b []byte) error {
				var d table.Data
				if err := d.Decode(b); err != nil {
					return err
				}
				if !c11Same(want, d.Entries) {
					return fmt.Errorf("decodes to different entries")
				}
				return nil
			}
		}
		var walEntries []types.Entry
		var decoded []types.Entry
		var w *wal.WAL
		main := func() {
			vos.MkdirAll("/w", 0o755)
			var err error
			w, err = wal.Create("/w")
			if err != nil {
				panic(err)
			}
			var wg vsync.WaitGroup
			wg.Add(2)
			vsched.GoUser("encA", func() {
				defer wg.Done()
				switch variant {
				case 0:
					_, tb := table.Build(e1, 1, 0)
					keep("table.Build(e1)", tb, nil)
				case 1:
					d := table.Data{Entries: e1}
					b, err := d.Encode()
					if err == nil {
						keep("Data.Encode(e1)", b, decData(e1))
					}
				case 2:
					ix := table.Index{Entries: []table.IndexEntry{{StartKey: "a@3", EndKey: "b@2", DataHandle: table.BlockHandle{Offset: 1, Length: 2}}}}
					b, err := ix.Encode()
					if err == nil {
						keep("Index.Encode", b, func(b []byte) error {
							var o table.Index
							if err := o.Decode(b); err != nil {
								return err
							}
							if len(o.Entries) != 1 || o.Entries[0] != ix.Entries[0] {
								return fmt.Errorf("decodes to a different index")
							}
							return nil
						})
					}
				case 3:
					f := table.Footer{MetaBlock: table.BlockHandle{Offset: 7, Length: 8}, IndexBlock: table.BlockHandle{Offset: 9, Length: 10}, Magic: 0x5bc2aa5766250562}
					b, err := f.Encode()
					if err == nil {
						keep("Footer.Encode", b, func(b []byte) error {
							var o table.Footer
							if err := o.Decode(b); err != nil {
								return err
							}
							if o != f {
								return fmt.Errorf("decodes to a different footer")
							}
							return nil
						})
					}
					m := table.Meta{CreatedUnix: 77, Level: 3}
					mb, err := m.Encode()
					if err == nil {
						keep("Meta.Encode", mb, func(b []byte) error {
							var o table.Meta
							if err := o.Decode(b); err != nil {
								return err
							}
							if o != m {
								return fmt.Errorf("decodes to a different meta block")
							}
							return nil
						})
					}
				}
				vsched.Yield("encA.between")
				if err := w.Write(e1[0]); err == nil {
					walEntries = append(walEntries, e1[0])
				}
			})
			vsched.GoUser("encB", func() {
				defer wg.Done()
				d := table.Data{Entries: e2}
				b, err := d.Encode()
				if err == nil {
					keep("Data.Encode(e2)", b, decData(e2))
					// what a decoder hands out must stay intact as well (values must not alias pooled memory)
					var dd table.Data
					if dd.Decode(append([]byte(nil), b...)) == nil {
						decoded = dd.Entries
					}
				}
				vsched.Yield("encB.between")
				if err := w.Write(e2...); err == nil {
					walEntries = append(walEntries, e2...)
				}
				vsched.Yield("encB.between")
				_, tb := table.Build(e2, 4096, 1)
				keep("table.Build(e2)", tb, nil)
			})
			wg.Wait()
			for _, k := range keeps {
				if !bytes.Equal(k.b, k.snap) {
					verr = oerr("c11/unstable/"+strings.SplitN(k.what, "(", 2)[0], "the bytes returned by %s changed after the encoder returned (other encoders reuse the pooled buffer)", k.what)
					return
				}
				if k.dec != nil {
					if err := k.dec(k.b); err != nil {
						verr = oerr("c11/unstable-decode/"+strings.SplitN(k.what, "(", 2)[0], "%s: %v", k.what, err)
						return
					}
				}
			}
			if decoded != nil && !c11Same(decoded, e2) {
				verr = oerr("c11/unstable-decoded/Data.Decode", "entries handed out by Data.Decode changed after later encoder / wal activity")
				return
			}
			got, err := w.Read()
			if err != nil || !c11Same(walEntries, got) {
				verr = oerr("c11/wal-concurrent", "WAL written by two goroutines reads back %d entries (err %v), %d were acknowledged in this order", len(got), err, len(walEntries))
				return
			}
			// what WAL.Read hands out must stay intact too: more encoder / wal activity (which draws from the same
			// buffer pool), then compare with a deep copy taken at once
			snap := c11DeepCopy(got)
			d := table.Data{Entries: e2}
			d.Encode()
			if err := w.Write(e1[1]); err == nil {
				walEntries = append(walEntries, e1[1])
			}
			got2, err := w.Read()
			ix := table.Index{Entries: []table.IndexEntry{{StartKey: "zzzzzzzzzzzzzzzzzzzzzzzzzzzzzzzz@1", EndKey: "zzzzzzzzzzzzzzzzzzzzzzzzzzzzzzzz@1"}}}
			ix.Encode()
			if !c11Same(got, snap) {
				verr = oerr("c11/unstable-decoded/WAL.Read", "entries handed out by WAL.Read changed after later encoder / wal activity")
				return
			}
			if err != nil || !c11Same(walEntries, got2) {
				verr = oerr("c11/wal-concurrent", "second WAL.Read gives %d entries (err %v), %d were acknowledged", len(got2), err, len(walEntries))
			}
		}
		check := func(res vsched.Result) error {
			if obs != nil {
				*obs = fmt.Sprintf("kept=%d wal=%d", len(keeps), len(walEntries))
			}
			if verr != nil {
				return verr
			}
			return StdCheck(res)
		}
		return main, nil, check
	}
}

func c11Units(tier string) []Unit {
	var units []Unit
	small := []string{"a", "ab", "ab@", "a\x00", "\xff", "ab@12", ""}
	vals := []string{"", "x", "\x00\xff"}
	vers := []int64{0, 1, 1<<63 - 1}
	var smallEnts []c11Ent
	for _, k := range small {
		for _, v := range vals {
			for _, t := range []bool{false, true} {
				for _, ve := range vers {
					smallEnts = append(smallEnts, c11Ent{k, v, t, ve})
				}
			}
		}
	}
	pre := c11Long(300, 'p')
	bigEnts := []c11Ent{
		{pre + "1@7", "v1", false, 7}, {pre + "2@7", "", true, 7},
		{c11Long(65535, 'k'), "v", false, 1}, {"k", c11Long(65535, 'v'), false, 2},
		{c11Long(65536, 'k'), "v", false, 1}, {"k", c11Long(65536, 'v'), false, 2}, {c11Long(70000, 'z'), c11Long(70000, 'w'), true, 3},
		{c11Long(65000, 'k') + "@1", c11Long(65535, 'v'), false, 1}, // both fields near the largest size the engine accepts
	}
	// (1) Data codec: all lists of length <= 2 over the small alphabet; length 3 with a reduced alphabet (thorough: fuller)
	nSh := 8
	for sh := 0; sh < nSh; sh++ {
		sh := sh
		units = append(units, Unit{Name: fmt.Sprintf("roundtrip/data/shard%d", sh), Weight: 5, Run: func(c *Ctx) {
			if c.Replay != nil {
				c11Replay(c)
				return
			}
			n := 0
			for _, a := range smallEnts {
				n++
				if n%nSh == sh {
					c11RtData(c, []c11Ent{a})
				}
				for _, b := range smallEnts {
					n++
					if n%nSh != sh {
						continue
					}
					c11RtData(c, []c11Ent{a, b})
					c.NT(c11List([]c11Ent{a, b}))
				}
			}
			// length 3: keys vary fully (prefix compression chains), other fields from a reduced menu
			step := 7
			if tier == "thorough" {
				step = 1
			}
			for i := sh; i < len(smallEnts); i += nSh * step {
				a := smallEnts[i]
				for _, kb := range small {
					for _, kc := range small {
						l := []c11Ent{a, {kb, "x", false, 1}, {kc, "", true, 0}}
						c11RtData(c, l)
						c.NT(c11List(l))
					}
				}
			}
			c.Sample(map[string]any{"codec": "data", "list": c11List([]c11Ent{smallEnts[3], smallEnts[40]})})
		}})
	}
	// (2) boundary sizes: long shared prefixes, 65535 / 65536 / 70000-byte fields, alone and next to small entries
	units = append(units, Unit{Name: "roundtrip/boundary-sizes", Weight: 8, Run: func(c *Ctx) {
		if c.Replay != nil {
			c11Replay(c)
			return
		}
		partners := []c11Ent{smallEnts[0], {"ab@12", "x", true, 1}}
		for _, b := range bigEnts {
			lists := [][]c11Ent{{b}}
			for _, p := range partners {
				lists = append(lists, []c11Ent{p, b}, []c11Ent{b, p})
			}
			for _, b2 := range bigEnts[:4] {
				lists = append(lists, []c11Ent{b, b2})
			}
			for _, l := range lists {
				c11RtData(c, l)
				c11RtWAL(c, l, 1)
				c.NT(c11List(l))
			}
			c.Sample(map[string]any{"codec": "data+wal", "list": c11List([]c11Ent{b})})
		}
		// whole tables need sorted versioned keys
		for _, blk := range []int{1, 1 << 20} {
			c11RtTable(c, []c11Ent{{pre + "1@7", "v1", false, 7}, {pre + "2@7", "", true, 7}}, blk)
			c11RtTable(c, []c11Ent{{"a@2", c11Long(65535, 'v'), false, 2}, {"b@1", "w", false, 1}}, blk)
			c11RtTable(c, []c11Ent{{"a@2", c11Long(65536, 'v'), false, 2}, {"b@1", "w", false, 1}}, blk)
			c11RtTable(c, []c11Ent{{c11Long(65533, 'k') + "@1", "v", false, 1}}, blk)
			c11RtTable(c, []c11Ent{{c11Long(65534, 'k') + "@1", "v", false, 1}}, blk)
		}
		// one data block of more than 1 MiB (and of more than 2 MiB): the compressed stream is cut into chunks, a field
		// may lie across a chunk boundary; as a bare block and as a table with a block size that keeps it in one block
		for _, nBig := range []int{17, 40} {
			var huge []c11Ent
			for i := 0; i < nBig; i++ {
				v := make([]byte, 65535)
				for j := range v {
					v[j] = byte((i*131 + j*7) % 251)
				}
				huge = append(huge, c11Ent{fmt.Sprintf("huge%02d@%d", i, 5), string(v), false, 5})
			}
			c11RtData(c, huge)
			c11RtTable(c, huge, 4<<20)
			c11RtWAL(c, huge, nBig/2)
			c.NT(fmt.Sprintf("huge block %d", nBig))
		}
		var ikeys []string
		ikeys = append(ikeys, "", "a@1", "ab@12", pre+"1@7", c11Long(65535, 'k'), c11Long(65536, 'k'))
		c11RtIndex(c, ikeys)
	}})
	// (3) whole tables and WAL over the small alphabet (sorted versioned keys for tables)
	units = append(units, Unit{Name: "roundtrip/table+wal", Weight: 6, Run: func(c *Ctx) {
		if c.Replay != nil {
			c11Replay(c)
			return
		}
		uni := c10Universe([]string{"a", "a!", "ab@"}, []uint64{1, 2, 10})
		// every non-empty subset of the 9-tuple universe as one table, block sizes {1, 30, 4096}
		for mask := 1; mask < 1<<len(uni); mask++ {
			if c.TimeUp() {
				c.Res.Exhaustive = false
				c.Cap("deadline reached in roundtrip/table+wal")
				return
			}
			var vs []ver
			for i, v := range uni {
				if mask&(1<<i) != 0 {
					vs = append(vs, v)
				}
			}
			sortVers(vs)
			var l []c11Ent
			for _, v := range vs {
				l = append(l, c11Ent{types.KeyWithTs(v.Key, v.Ts), string(v.value()), v.Tomb, int64(v.Ts)})
			}
			blocks := []int{1, 4096}
			if tier == "thorough" {
				blocks = []int{1, 30, 4096}
			} else if mask%4 != 1 {
				blocks = []int{30}
			}
			for _, blk := range blocks {
				c11RtTable(c, l, blk)
			}
			c11RtWAL(c, l, mask%(len(l)+1))
			if len(l) >= 2 {
				c.NT(c11List(l))
			}
		}
		c.Sample(map[string]any{"codec": "table+wal", "universe": fmt.Sprint(uni), "subsets": 1<<len(uni) - 1})
	}})
	// (4) stability of returned bytes under concurrency
	for v := 0; v < 4; v++ {
		v := v
		units = append(units, Unit{Name: fmt.Sprintf("stability/variant%d", v), Weight: 9, Run: func(c *Ctx) {
			var obs string
			ExploreSched(c, c11StabilityScenario(v, &obs), SchedOpts{Budgets: c11Budgets(c.Tier), MaxEnv: c11Env(c.Tier), MaxSteps: 20000,
				Outcome: func() string { return obs },
				NT:      func() string { return fmt.Sprintf("stab%d %s", v, obs) },
				Sample: func() any {
					return map[string]any{"scenario": "encoders+WAL from two goroutines, kept slices compared at the end", "variant": v, "result": obs}
				}})
		}})
	}
	return units
}

func c11Replay(c *Ctx) {
	var rc struct {
		Codec string   `json:"codec"`
		Ents  []c11Ent `json:"ents"`
		Block int      `json:"block"`
		Split int      `json:"split"`
	}
	jsonUnmarshal(c.Replay.Case, &rc)
	fmt.Printf("codec=%s list=%s\n", rc.Codec, c11List(rc.Ents))
	switch rc.Codec {
	case "data":
		c11RtData(c, rc.Ents)
	case "table":
		c11RtTable(c, rc.Ents, rc.Block)
	case "wal":
		c11RtWAL(c, rc.Ents, rc.Split)
	}
	for _, v := range c.Res.Violations {
		fmt.Println(v.Sig+":", v.Detail)
	}
}

func init() {
	Props["C11"] = &PropMeta{
		Units: c11Units,
		Rule: "round trip: every entry list of length <= 2 (length 3 with a reduced field menu) over a boundary alphabet (keys '', 'a', 'ab', 'ab@', 'a\\x00', '\\xff', 'ab@12'; values '', 'x', '\\x00\\xff'; tombstone; versions 0, 1, 2^63-1) " +
			"through Data.Encode/Decode; 300-byte shared prefixes and 65535/65536/70000-byte fields through Data, Index, table.Build+recover and the WAL; every non-empty subset of a 9-tuple versioned universe as a whole table " +
			"(block sizes 1/30/4096) and as a WAL record sequence; Footer/Meta over numeric boundary values. An encoder may refuse with an error; silent corruption is the violation. " +
			"Stability: every schedule and every buffer-pool answer of two goroutines using all encoders, table.Build and WAL.Write; kept slices must be unchanged at the end. Non-trivial: lists of >= 2 entries / executions with distinct outcome",
		Assumptions: []string{
			"s2, frugal/thrift are trusted; nil and empty values are equal by content",
			"the buffer pool is modelled as a free list whose Get may return any pooled buffer or a new one (all legal sync.Pool behaviours)",
		},
		QuickS: 100, ThoroughS: 900,
	}
}

func c11Budgets(tier string) []int {
	if tier == "thorough" {
		return []int{0, 1, 2, 3, 4}
	}
	return []int{0, 1}
}

// c11Env: budget of non-default buffer-pool answers per execution.
func c11Env(tier string) int {
	if tier == "thorough" {
		return 3
	}
	return 2
}
