package harness

import (
	"fmt"

	"github.com/B1NARY-GR0UP/originium/pkg/logger"
)

// silent logger: the default one writes a line to stderr for every memtable write.
type nopLogger struct{}

func (nopLogger) Debugf(string, ...any)     {}
func (nopLogger) Infof(string, ...any)      {}
func (nopLogger) Warnf(string, ...any)      {}
func (nopLogger) Errorf(string, ...any)     {}
func (nopLogger) Fatalf(f string, a ...any) { panic("FATAL: " + fmt.Sprintf(f, a...)) }
func (nopLogger) Panicf(f string, a ...any) { panic(fmt.Sprintf(f, a...)) }

// Setup installs process-wide harness state.
func Setup() {
	logger.SetLogger(nopLogger{})
}
