package harness

import "fmt"

func c02Units(tier string) []Unit {
	var units []Unit
	single := seqTxnAlphabet(false)
	full := seqTxnAlphabet(true)
	cfgSets := [][]dbCfg{
		{cfgRotateAlways, cfgSmall, cfgMemOnly},
		{cfgMemOnly, cfgRotateAlways, cfgUnbuffered},
		{cfgSmall, cfgUnbuffered, cfgRotateAlways},
		{cfgUnbuffered, cfgMemOnly, cfgSmall},
	}
	// L0TargetNum / LevelRatio stay fixed for a directory
	for i := range cfgSets {
		for j := range cfgSets[i] {
			cfgSets[i][j].L0, cfgSets[i][j].Ratio = cfgSets[i][0].L0, cfgSets[i][0].Ratio
		}
	}
	type plan struct {
		name    string
		alpha   []txProg
		ntxn    int // number of transactions
		nreopen int // number of reopen steps placed at every position
		budgets []int
		eager   bool
	}
	var plans []plan
	if tier == "quick" {
		plans = []plan{
			{"d3+1reopen", single, 2, 1, []int{0}, true},
			{"d2+2reopens", single, 2, 2, []int{0}, false},
			{"dev1/d2+1reopen", []txProg{full[0], full[3], full[7]}, 2, 1, []int{0, 1}, false},
		}
	} else {
		plans = []plan{
			{"d3+1reopen", full, 3, 1, []int{0}, true},
			{"d3+2reopens", single, 3, 2, []int{0}, true},
			{"d4+1reopen", single, 4, 1, []int{0}, false},
			{"dev1/d3+1reopen", single, 3, 1, []int{0, 1}, true},
			{"dev2/d2+1reopen", single, 2, 1, []int{0, 1, 2}, false},
		}
	}
	for _, pl := range plans {
		for ci, cfgs := range cfgSets {
			for clock := 0; clock < 3; clock++ {
				pl, cfgs, clock, ci := pl, cfgs, clock, ci
				if tier == "quick" && len(pl.budgets) > 1 && (clock == 2 || ci >= 2) {
					continue
				}
				units = append(units, Unit{Name: fmt.Sprintf("%s/cfgset%d/clock%d", pl.name, ci, clock), Weight: (pl.ntxn + pl.nreopen) * len(pl.budgets), Run: func(c *Ctx) {
					if c.Replay != nil {
						replaySeq(c, "c02")
						return
					}
					enumSeqs(len(pl.alpha), pl.ntxn, func(ix []int) {
						// place the reopen steps at every combination of positions (0 = before the first transaction … ntxn = after the last)
						var place func(from, left int, pos []int)
						place = func(from, left int, pos []int) {
							if left == 0 {
								if c.TimeUp() {
									if c.Res.Exhaustive {
										c.Res.Exhaustive = false
										c.Cap("deadline reached before all histories of this unit were run")
									}
									return
								}
								if len(c.Res.Violations) >= 6 {
									c.Res.Exhaustive = false
									return
								}
								var steps []seqStep
								r := 0
								for p := 0; p <= pl.ntxn; p++ {
									for _, q := range pos {
										if q == p {
											r++
											// the last reopen of a history also exercises View/Update on the closed handle
											name := ""
											if r == pl.nreopen {
												name = "use-after-close"
											}
											steps = append(steps, seqStep{Kind: "R", Cfg: r, Clock: (clock + r - 1) % 3, Name: name})
										}
									}
									if p < pl.ntxn {
										steps = append(steps, seqStep{Kind: "T", Prog: pl.alpha[ix[p]]})
									}
								}
								// one more write to every key after the last reopen must be visible and win
								for _, k := range seqKeys {
									steps = append(steps, seqStep{Kind: "T", Prog: txProg{Update: true, Ops: []txOp{{Op: "S", K: k}}, End: "C"}})
								}
								exploreSeq(c, "c02", cfgs, steps, pl.budgets, pl.eager)
								return
							}
							for p := from; p <= pl.ntxn; p++ {
								place(p, left-1, append(pos, p))
							}
						}
						place(0, pl.nreopen, nil)
					})
				}})
			}
		}
	}
	return units
}

func init() {
	Props["C02"] = &PropMeta{
		Units: c02Units,
		Rule: "every history of committed transactions (alphabet of C01) with Close+Open cycles at every position (before the first transaction, right after a rotation, with a non-empty flush queue, " +
			"after the last one; two reopens also back to back), the configuration changing from run to run (memtable/block/queue/skiplist sizes; L0TargetNum and LevelRatio fixed per directory), the process-start clock taken from the " +
			"three order classes of the wal-name comparison, background flusher lazy and eager, plus every schedule within the stated deviations for the dev plans; after every step all keys are read and compared " +
			"with a map model, and after the last reopen one more write to every key must be visible; non-trivial: a written key read while its newest version was not in the active memtable",
		Assumptions: []string{
			"the wall clock is strictly increasing and never equal for two wal creations",
			"Close is called while no other call is in flight",
			"sequentially consistent interleavings at the shims' scheduling points; deviation bounding",
		},
		QuickS: 75, ThoroughS: 1500,
	}
}
