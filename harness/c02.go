package harness

import (
	"fmt"
	"sort"

	"github.com/B1NARY-GR0UP/originium"

	"verif/vsched"
)

func c02Units(tier string) []Unit {
	var units []Unit
	single := seqTxnAlphabet(false)
	full := seqTxnAlphabet(true)
	sizes := seqTxnAlphabetOver(sizeKeys, false)
	cfgSets := [][]dbCfg{
		{cfgRotateAlways, cfgSmall, cfgMemOnly},
		{cfgMemOnly, cfgRotateAlways, cfgUnbuffered},
		{cfgSmall, cfgUnbuffered, cfgRotateAlways},
		{cfgUnbuffered, cfgMemOnly, cfgSmall},
		// two entries per memtable and a lazy flusher: Close finds frozen memtables in the queue and newer versions of
		// the same keys in the active memtable
		{dbCfg{Mem: 40, Imm: 2, Block: 30, L0: 2, Ratio: 2, SL: 1}, cfgSmall, cfgMemOnly},
		// for the size plans (largest keys and values): big blocks first, then one entry per table
		{cfgBigBlocks, cfgRotateAlways, cfgBigBlocks},
		// the same configuration in every run, every commit a table of its own and a compaction: what is written after a
		// reopen leaves the memtable at once and has to win against what recovery found on disk
		{cfgRotateAlways, cfgRotateAlways, cfgRotateAlways},
		// ... and with three tables in L0 before it compacts: a wide table and the narrow ones written after it go down
		// together, so that everything on disk has been through a compaction when the store is closed
		{cfgL0Two, cfgL0Two, cfgL0Two},
	}
	// L0TargetNum / LevelRatio stay fixed for a directory
	for i := range cfgSets {
		for j := range cfgSets[i] {
			cfgSets[i][j].L0, cfgSets[i][j].Ratio = cfgSets[i][0].L0, cfgSets[i][0].Ratio
		}
	}
	type plan struct {
		name    string
		alpha   []txProg
		ntxn    int // number of transactions
		nreopen int // number of reopen steps placed at every position
		budgets []int
		eager   bool
	}
	var plans []plan
	if tier == "quick" {
		plans = []plan{
			{"d3+1reopen", single, 2, 1, []int{0}, true},
			{"d4+1reopen/same-key", []txProg{single[0], single[3], single[1]}, 4, 1, []int{0}, false},
			{"d2+2reopens", single, 2, 2, []int{0}, false},
			{"dev1/d2+1reopen", []txProg{full[0], full[7]}, 2, 1, []int{0, 1}, false},
			{"sizes/d2+1reopen", sizes, 2, 1, []int{0}, false},
			// two keys written and deleted in every order, then the reopen: the newest versions on disk may all be
			// deletion markers that went through a compaction
			{"d4+1reopen/deletes", []txProg{full[10], single[1], single[3], single[4]}, 4, 1, []int{0}, true},
		}
	} else {
		plans = []plan{
			{"d3+1reopen", full, 3, 1, []int{0}, true},
			{"d3+2reopens", single, 3, 2, []int{0}, true},
			{"d4+1reopen", single, 4, 1, []int{0}, false},
			{"dev1/d3+1reopen", single, 3, 1, []int{0, 1}, true},
			{"dev2/d2+1reopen", single, 2, 1, []int{0, 1, 2}, false},
			{"sizes/d3+1reopen", sizes, 3, 1, []int{0}, true},
		}
	}
	for _, pl := range plans {
		for ci, cfgs := range cfgSets {
			for clock := 0; clock < 3; clock++ {
				pl, cfgs, clock, ci := pl, cfgs, clock, ci
				isSizes := len(pl.name) > 5 && pl.name[:5] == "sizes"
				if ci >= 6 {
					// the constant sets: the delete-heavy plan and the basic one-reopen plan, first clock class
					if clock != 0 || !((pl.name == "d4+1reopen/deletes" && (ci == 7 || tier == "thorough")) || (pl.name == "d3+1reopen" && ci == 6)) {
						continue
					}
				} else if pl.name == "d4+1reopen/deletes" {
					continue
				}
				if ci < 6 && isSizes != (ci == 5 || (isSizes && ci == 0)) {
					continue // the size plans run on configuration sets 0 and 5, the others on 0..4
				}
				if isSizes && clock != 0 && tier == "quick" {
					continue
				}
				if tier == "quick" && len(pl.budgets) > 1 && (clock == 2 || ci >= 2) {
					continue
				}
				if tier == "quick" && pl.name == "d4+1reopen/same-key" && ci != 4 && ci != 2 {
					continue
				}
				if tier == "quick" && pl.name != "d4+1reopen/same-key" && ci == 4 {
					continue
				}
				units = append(units, Unit{Name: fmt.Sprintf("%s/cfgset%d/clock%d", pl.name, ci, clock), Weight: (pl.ntxn + pl.nreopen) * len(pl.budgets), Run: func(c *Ctx) {
					if c.Replay != nil {
						replaySeq(c, "c02")
						return
					}
					enumSeqs(len(pl.alpha), pl.ntxn, func(ix []int) {
						// place the reopen steps at every combination of positions (0 = before the first transaction … ntxn = after the last)
						var place func(from, left int, pos []int)
						place = func(from, left int, pos []int) {
							if left == 0 {
								if c.TimeUp() {
									if c.Res.Exhaustive {
										c.Res.Exhaustive = false
										c.Cap("deadline reached before all histories of this unit were run")
									}
									return
								}
								if len(c.Res.Violations) >= 6 {
									c.Res.Exhaustive = false
									return
								}
								var steps []seqStep
								r := 0
								for p := 0; p <= pl.ntxn; p++ {
									for _, q := range pos {
										if q == p {
											r++
											// the last reopen of a history also exercises View/Update on the closed handle
											name := ""
											if r == pl.nreopen {
												name = "use-after-close"
											}
											steps = append(steps, seqStep{Kind: "R", Cfg: r, Clock: (clock + r - 1) % 3, Name: name})
										}
									}
									if p < pl.ntxn {
										steps = append(steps, seqStep{Kind: "T", Prog: pl.alpha[ix[p]]})
									}
								}
								// one more write to every key after the last reopen must be visible and win
								for _, k := range seqKeys {
									steps = append(steps, seqStep{Kind: "T", Prog: txProg{Update: true, Ops: []txOp{{Op: "S", K: k}}, End: "C"}})
								}
								exploreSeq(c, "c02", cfgs, steps, pl.budgets, pl.eager)
								return
							}
							for p := from; p <= pl.ntxn; p++ {
								place(p, left-1, append(pos, p))
							}
						}
						place(0, pl.nreopen, nil)
					})
				}})
			}
		}
	}
	units = append(units, c02ManyTablesUnits(tier)...)
	units = append(units, c02BulkUnits(tier)...)
	return units
}

// c02BulkUnits: tables with several data blocks of several entries each, read back through handles rebuilt by
// recovery. One transaction writes n keys of a family (sequential two-digit suffixes, a chain of growing prefixes,
// long common prefixes), the store is closed and reopened, a second transaction overwrites two of them and deletes
// one, and it is reopened again; every key is read after every step. Block sizes are chosen so that a block holds
// about two to five entries.
func c02BulkUnits(tier string) []Unit {
	families := map[string]func(i int) string{
		"k%02d":        func(i int) string { return fmt.Sprintf("k%02d", i) },
		"prefix-chain": func(i int) string { return "abcdefghijklmnopqrstuvwxyz"[:i+1] },
		"key1%02d":     func(i int) string { return fmt.Sprintf("key1%02d", i) },
		"k%d@%d":       func(i int) string { return fmt.Sprintf("k%d@%d", i/3, i%3) },
	}
	var fnames []string
	for n := range families {
		fnames = append(fnames, n)
	}
	sort.Strings(fnames)
	counts := []int{6, 9, 12, 14}
	blocks := []int{32, 64, 128}
	if tier == "thorough" {
		counts = []int{2, 3, 4, 5, 6, 7, 8, 9, 10, 11, 12, 13, 14, 16, 20, 26}
		blocks = []int{16, 32, 48, 64, 96, 128, 256}
	}
	var units []Unit
	for _, fn := range fnames {
		fn := fn
		units = append(units, Unit{Name: "bulk-tables/" + fn, Weight: 4, Run: func(c *Ctx) {
			if c.Replay != nil {
				replaySeq(c, "c02")
				return
			}
			for _, n := range counts {
				for _, b := range blocks {
					var ops []txOp
					for i := 0; i < n; i++ {
						ops = append(ops, txOp{Op: "S", K: families[fn](i)})
					}
					second := []txOp{{Op: "S", K: families[fn](0)}, {Op: "D", K: families[fn](n / 2)}, {Op: "S", K: families[fn](n - 1)}}
					cfg := dbCfg{Mem: memHuge, Imm: 1, Block: b, L0: 2, Ratio: 2, SL: 3}
					steps := []seqStep{
						{Kind: "T", Prog: txProg{Update: true, Ops: ops, End: "C"}},
						{Kind: "R", Cfg: 1, Clock: 0},
						{Kind: "T", Prog: txProg{Update: true, Ops: second, End: "C"}},
						{Kind: "R", Cfg: 2, Clock: 2, Name: "use-after-close"},
					}
					exploreSeq(c, "c02", []dbCfg{cfg, cfg, cfg}, steps, []int{0}, false)
				}
			}
		}})
	}
	return units
}

func init() {
	Props["C02"] = &PropMeta{
		Units: c02Units,
		Rule: "(plus: 13 single-key commits with one table each - table indices with one and two decimal digits in one level - with a reopen at every position) every history of committed transactions (alphabet of C01) with Close+Open cycles at every position (before the first transaction, right after a rotation, with a non-empty flush queue, " +
			"after the last one; two reopens also back to back), the configuration changing from run to run (memtable/block/queue/skiplist sizes; L0TargetNum and LevelRatio fixed per directory), the process-start clock taken from the " +
			"three order classes of the wal-name comparison, background flusher lazy and eager, plus every schedule within the stated deviations for the dev plans; after every step all keys are read and compared " +
			"with a map model, and after the last reopen one more write to every key must be visible; non-trivial: a written key read while its newest version was not in the active memtable",
		Assumptions: []string{
			"the wall clock is strictly increasing and never equal for two wal creations",
			"Close is called while no other call is in flight",
			"sequentially consistent interleavings at the shims' scheduling points; deviation bounding",
		},
		QuickS: 120, ThoroughS: 1500,
	}
}

// manyTablesScenario: more tables than one decimal digit of table index in one level. n single-key
// commits with rotation on every commit and L0TargetNum above n, a Close+Open after commit number
// reopenAt (0..n) and one at the end; every key is read after each reopen and at the end.
func manyTablesScenario(cfg dbCfg, n, reopenAt int, obs *seqObs) vsched.Scenario {
	return func() (func(), func(*vsched.Exec), func(vsched.Result) error) {
		*obs = seqObs{}
		desc := fmt.Sprintf("%d single-key commits (one table each, %s), reopen after commit %d and at the end", n, cfg, reopenAt)
		fail := func(sig, f string, a ...any) {
			if obs.err == nil {
				obs.err = oerr("c02/"+sig, "%s: %s", desc, fmt.Sprintf(f, a...))
			}
		}
		main := func() {
			model := kvState{}
			vsched.Freeze()
			db, err := originium.Open("/d", cfg.config())
			vsched.Thaw()
			if err != nil {
				fail("open-error", "%v", err)
				return
			}
			readAll := func(stage string) bool {
				ok := true
				db.View(func(tx *originium.Txn) error {
					for i := 0; i < n; i++ {
						k := fmt.Sprintf("m%02d", i)
						v, f := tx.Get(k)
						obs.reads++
						want, wok := model[k]
						if f != wok || (f && string(v) != want) {
							_, tabs := db.VerifShape()
							fail("lost-after-reopen/"+stage, "Get(%q) = (%q,%v), model says (%q,%v) [tables per level %v]", k, v, f, want, wok, tabs)
							ok = false
							return nil
						}
					}
					return nil
				})
				_, tabs := db.VerifShape()
				t := 0
				for _, x := range tabs {
					t += x
				}
				obs.maxTables = max(obs.maxTables, t)
				obs.levels = max(obs.levels, len(tabs))
				obs.offMem = obs.reads
				return ok
			}
			reopen := func(stage string) bool {
				db.Close()
				nextClock(obs.reopens % 3)
				db, err = originium.Open("/d", cfg.config())
				if err != nil {
					fail("open-error", "%v", err)
					return false
				}
				obs.reopens++
				return readAll(stage)
			}
			for i := 0; i <= n; i++ {
				if i == reopenAt {
					if !reopen("first-reopen") {
						return
					}
				}
				if i == n {
					break
				}
				k := fmt.Sprintf("m%02d", i)
				v := fmt.Sprintf("val%d", i)
				if err := db.Update(func(tx *originium.Txn) error { return tx.Set(k, []byte(v)) }); err != nil {
					fail("unexpected-commit-error", "%v", err)
					return
				}
				model[k] = v
				vsched.WaitQuiescent()
			}
			if !readAll("before-final-reopen") {
				return
			}
			if !reopen("final-reopen") {
				return
			}
			db.Close()
		}
		check := func(res vsched.Result) error {
			if obs.err != nil {
				return obs.err
			}
			if err := StdCheck(res); err != nil {
				oe := err.(*OracleErr)
				return oerr("c02/"+oe.Sig, "%s: %s", desc, oe.Detail)
			}
			return nil
		}
		return main, nil, check
	}
}

func c02ManyTablesUnits(tier string) []Unit {
	var units []Unit
	cfgs := []dbCfg{
		{Mem: 1, Imm: 2, Block: 4096, L0: 14, Ratio: 10, SL: 1}, // 13 tables stay in L0: indices 0..12
		{Mem: 1, Imm: 1, Block: 1, L0: 1, Ratio: 12, SL: 1},     // every flush compacts: L1 indices grow past 9
	}
	n := 13
	for ci, cfg := range cfgs {
		ci, cfg := ci, cfg
		units = append(units, Unit{Name: fmt.Sprintf("many-tables/cfg%d/reopen-at-every-position", ci), Weight: 20, Run: func(c *Ctx) {
			for at := 0; at <= n; at++ {
				if c.Replay != nil {
					var rc struct{ At int }
					jsonUnmarshal(c.Replay.Case, &rc)
					if rc.At != at {
						continue
					}
				}
				var obs seqObs
				nv := len(c.Res.Violations)
				ExploreSched(c, manyTablesScenario(cfg, n, at, &obs), SchedOpts{Delay: true, Budgets: []int{0}, MaxEnv: 1, EnvKinds: dbEnvKinds, MaxSteps: 400000,
					Outcome: func() string {
						return fmt.Sprintf("tables:%d levels:%d reopens:%d", obs.maxTables, obs.levels, obs.reopens)
					},
					NT: func() string { return fmt.Sprintf("many-tables cfg%d at%d %s", ci, at, obs.String()) },
					Sample: func() any {
						return map[string]any{"config": cfg.String(), "commits": n, "reopen_after_commit": at, "observed": obs.String()}
					}})
				for k := nv; k < len(c.Res.Violations); k++ {
					c.Res.Violations[k].Case = jsonMarshal(map[string]any{"At": at})
				}
			}
		}})
	}
	return units
}
