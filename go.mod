module verif

go 1.24

require (
	github.com/B1NARY-GR0UP/originium v0.0.0-00010101000000-000000000000
	github.com/klauspost/compress v1.17.11
	golang.org/x/tools v0.29.0
)

require (
	github.com/cloudwego/iasm v0.2.0 // indirect
	golang.org/x/arch v0.12.0 // indirect
)

require (
	github.com/anishathalye/porcupine v1.3.0
	github.com/apache/thrift v0.19.0 // indirect
	github.com/bytedance/gopkg v0.1.1 // indirect
	github.com/cloudwego/frugal v0.2.1 // indirect
	github.com/cloudwego/gopkg v0.1.2 // indirect
	github.com/spaolacci/murmur3 v1.1.0 // indirect
	golang.org/x/mod v0.22.0 // indirect
	golang.org/x/sync v0.10.0 // indirect
)

replace github.com/B1NARY-GR0UP/originium => /repo

replace github.com/apache/thrift => github.com/apache/thrift v0.13.0
