// Package vsched: cooperative scheduler for instrumented code.
//
// One virtual thread runs at a time. Shim operations call Point(op) before a visible
// operation; the scheduler decides which parked thread proceeds. All decisions (thread
// choices and environment answers) go through a Chooser and are recorded in a trace.
package vsched

import (
	"fmt"
	"runtime"
	"runtime/debug"
	"strings"
	"unsafe"

	"verif/vrace"
)

// Op describes the visible operation a thread is about to perform.
type Op struct {
	Kind  string
	Obj   uint64
	Write bool
	En    Enabler // nil: always enabled
}

// Enabler is implemented by named shim types whose methods carry //go:norace
// (function literals cannot carry the pragma).
type Enabler interface{ OpEnabled() bool }

//go:norace
func (op *Op) enabled() bool { return op.En == nil || op.En.OpEnabled() }

type Thread struct {
	Ev      []string
	H       uint64 // hash chain of this thread's events (causal past)
	ID      int
	Name    string
	User    bool
	wake    chan struct{}
	pending *Op
	started bool
	done    bool
	Panic   any
	Stack   string
}

// Choice is one recorded decision.
type Choice struct {
	Kind    string // "thread" or an environment kind
	N       int    // number of options
	Pick    int    // chosen option
	Preempt bool   // thread choice: running thread was still enabled
	Frozen  bool
}

type Chooser interface {
	// Choose returns the option to take for the i-th choice of this execution.
	Choose(i int, c *Choice) int
}

type Exec struct {
	Threads  []*Thread
	cur      *Thread
	back     chan struct{}
	chooser  Chooser
	Trace    []Choice
	Steps    int
	MaxSteps int
	aborting bool
	nextObj  uint64
	Deadlock bool
	Horizon  bool
	Nondet   string
	Monitor  func(e *Exec) // called by the scheduler before every decision
	Log      []string
	KeepLog  bool

	objW    map[uint64]uint64 // last write event hash per object
	objR    map[uint64]uint64 // sum of read event hashes since last write
	addrIDs map[uintptr]uint64
	Frozen  bool // while true the explorer does not branch (setup phase)
	Prune   func(e *Exec, fp uint64) bool
	Pruned  bool
	LastID  int
	endSync byte
	stopReq bool
	Vals    map[string]any // per-execution scratch for shims/harnesses
}

//go:norace
func mix(a, b uint64) uint64 {
	x := a ^ (b + 0x9e3779b97f4a7c15 + (a << 6) + (a >> 2))
	x ^= x >> 33
	x *= 0xff51afd7ed558ccd
	x ^= x >> 33
	return x
}

// Mix is exported for shims that derive sub-object ids.
//
//go:norace
func Mix(a, b uint64) uint64 { return mix(a, b) }

//go:norace
func hstr(s string) uint64 {
	var h uint64 = 1469598103934665603
	for i := 0; i < len(s); i++ {
		h ^= uint64(s[i])
		h *= 1099511628211
	}
	return h
}

//go:norace
func HashString(s string) uint64 { return hstr(s) }

// Event records a visible operation of the running thread in the partial-order hashes.
//
//go:norace
func Event(kind string, obj uint64, write bool) {
	e := current
	if e == nil || e.cur == nil {
		return
	}
	e.event(e.cur, kind, obj, write)
}

//go:norace
func (e *Exec) event(t *Thread, kind string, obj uint64, write bool) {
	if vrace.Enabled {
		return
	}
	if e.objW == nil {
		e.objW = map[uint64]uint64{}
		e.objR = map[uint64]uint64{}
	}
	h := mix(mix(t.H, hstr(kind)), obj)
	h = mix(h, e.objW[obj])
	if DebugEvents {
		t.Ev = append(t.Ev, fmt.Sprintf("%s o=%x w=%v lastW=%x reads=%x", kind, obj&0xffff, write, e.objW[obj]&0xffff, e.objR[obj]&0xffff))
	}
	if write {
		h = mix(h, e.objR[obj])
		e.objW[obj] = h
		e.objR[obj] = 0
	} else {
		e.objR[obj] += h
	}
	t.H = h
}

var DebugEvents bool

// EventDeps records one event of the running thread (or of thread tid if tid >= 0) that reads
// and writes several objects (e.g. a channel operation: tail/head counter plus element slot).
//
//go:norace
func EventDeps(tid int, kind string, reads, writes []uint64) {
	e := current
	if e == nil {
		return
	}
	var t *Thread
	if tid >= 0 {
		t = e.Threads[tid]
	} else {
		t = e.cur
	}
	if t == nil || vrace.Enabled {
		return
	}
	if e.objW == nil {
		e.objW = map[uint64]uint64{}
		e.objR = map[uint64]uint64{}
	}
	h := mix(t.H, hstr(kind))
	if DebugEvents {
		d := kind
		for _, o := range reads {
			d += fmt.Sprintf(" r(%x<-%x)", o&0xffff, e.objW[o]&0xffff)
		}
		for _, o := range writes {
			d += fmt.Sprintf(" w(%x<-%x,%x)", o&0xffff, e.objW[o]&0xffff, e.objR[o]&0xffff)
		}
		t.Ev = append(t.Ev, d)
	}
	for _, o := range reads {
		h = mix(mix(h, o), e.objW[o])
	}
	for _, o := range writes {
		h = mix(mix(mix(h, o), e.objW[o]), e.objR[o])
	}
	for _, o := range reads {
		e.objR[o] += h
	}
	for _, o := range writes {
		e.objW[o] = h
		e.objR[o] = 0
	}
	t.H = h
}

// EventOn records an event on behalf of another (parked) thread, e.g. the partner of a rendezvous.
//
//go:norace
func EventOn(tid int, kind string, obj uint64) {
	e := current
	if e == nil {
		return
	}
	e.event(e.Threads[tid], kind, obj, true)
}

// MixCur mixes a harness-visible value into the running thread's hash (e.g. a value
// observed from shared state outside the shims), keeping fingerprints faithful.
//
//go:norace
func MixCur(v uint64) {
	e := current
	if e == nil || e.cur == nil {
		return
	}
	e.cur.H = mix(e.cur.H, v)
}

// Fingerprint of the partial order executed so far.
//
//go:norace
func (e *Exec) Fingerprint() uint64 {
	h := uint64(len(e.Threads))
	for _, t := range e.Threads {
		h = mix(h, t.H)
		if t.done {
			h = mix(h, 7)
		}
	}
	return h
}

// AddrID maps an address to a deterministic per-execution object id.
//
//go:norace
func AddrID(p uintptr) uint64 {
	e := current
	if e == nil {
		return 0
	}
	if vrace.Enabled {
		return 1
	}
	if e.addrIDs == nil {
		e.addrIDs = map[uintptr]uint64{}
	}
	id, ok := e.addrIDs[p]
	if !ok {
		id = e.freshID()
		e.addrIDs[p] = id
	}
	return id
}

// Freeze / Thaw bracket the setup phase: choices are made by default and never branched on.
//
//go:norace
func Freeze() {
	if current != nil {
		current.Frozen = true
	}
}

//go:norace
func Thaw() {
	if current != nil {
		current.Frozen = false
	}
}

var current *Exec

var runStartHooks []func()

var idleHooks []func() bool

// OnIdle registers a function the scheduler calls when no thread is enabled (before declaring a
// deadlock); it returns true if it made something enabled (e.g. the virtual clock fired a timer).
//
//go:norace
func OnIdle(f func() bool) { idleHooks = append(idleHooks, f) }

// OnRunStart registers a function that resets package-level shim state before every execution.
//
//go:norace
func OnRunStart(f func()) { runStartHooks = append(runStartHooks, f) }

// Cur returns the active execution (nil in direct mode).
//
//go:norace
func Cur() *Exec { return current }

// InThread reports whether the caller runs as a virtual thread.
//
//go:norace
func InThread() bool { return current != nil && current.cur != nil }

//go:norace
func (e *Exec) NewObj() uint64 { e.nextObj++; return e.nextObj }

// ObjID lazily assigns a per-execution id to a shim object.
//
//go:norace
func ObjID(id *uint64, epoch **Exec) uint64 {
	e := current
	if e == nil {
		return 0
	}
	if *epoch != e {
		*epoch = e
		*id = e.freshID()
	}
	return *id
}

// freshID derives an object id from the causal past of the first user, so that two
// linearizations of the same partial order name the object identically.
//
//go:norace
func (e *Exec) freshID() uint64 {
	if e.cur == nil {
		return e.NewObj() | 1<<62
	}
	e.cur.H = mix(e.cur.H, 0x6f626a)
	id := mix(e.cur.H, 0x1d)
	if id == 0 {
		id = 1
	}
	return id
}

type abortSignal struct{}

//go:norace
func (e *Exec) spawn(name string, user bool, f func()) *Thread {
	t := &Thread{ID: len(e.Threads), Name: name, User: user, wake: make(chan struct{})}
	t.pending = &Op{Kind: "start"}
	if e.cur != nil {
		// child's causal past includes the parent's
		e.cur.H = mix(e.cur.H, 0x5fa3)
		t.H = mix(e.cur.H, 0xc41d)
	}
	e.Threads = append(e.Threads, t)
	go func() {
		vrace.Disable()
		<-t.wake
		vrace.Enable()
		defer func() {
			if r := recover(); r != nil {
				if _, ok := r.(abortSignal); !ok && !e.aborting {
					t.Panic = r
					t.Stack = string(debug.Stack())
				}
			}
			t.done = true
			t.pending = nil
			vrace.ReleaseMerge(unsafe.Pointer(&e.endSync))
			vrace.Disable()
			e.back <- struct{}{}
			vrace.Enable()
		}()
		if e.aborting {
			return
		}
		t.started = true
		t.H = mix(t.H, 0x57a27)
		f()
	}()
	return t
}

// Go starts a background thread (called from rewritten `go` statements).
//
//go:norace
func Go(f func()) {
	e := current
	if e == nil {
		go f()
		return
	}
	e.spawn(fmt.Sprintf("bg%d", len(e.Threads)), false, f)
}

// GoUser starts a user thread (harness).
//
//go:norace
func GoUser(name string, f func()) {
	current.spawn(name, true, f)
}

// Point parks the calling thread until the scheduler grants op.
//
//go:norace
func Point(op *Op) {
	e := current
	if e == nil || e.cur == nil {
		if !op.enabled() {
			panic("vsched: blocking operation " + op.Kind + " in direct mode")
		}
		return
	}
	if e.aborting {
		return
	}
	t := e.cur
	t.pending = op
	vrace.Disable()
	e.back <- struct{}{}
	<-t.wake
	vrace.Enable()
	if e.aborting {
		panic(abortSignal{})
	}
	t.pending = nil
	// every granted step must change the fingerprint (strict growth => no circular pruning)
	t.H = mix(t.H, 0x57e9)
	if op.Obj != 0 {
		e.event(t, op.Kind, op.Obj, op.Write)
	}
	if e.KeepLog {
		e.Log = append(e.Log, fmt.Sprintf("[%s] %s", t.Name, op.Kind))
	}
}

// Yield is a plain scheduling point without an object (harness API boundaries).
//
//go:norace
func Yield(kind string) { Point(&Op{Kind: kind}) }

// Gosched is runtime.Gosched under the scheduler: a point at which the caller steps back behind every other
// runnable thread. Continuing with the caller is possible (it is the last option), switching away from it is the
// default and costs no deviation: a loop that polls with Gosched lets the others run, as the real scheduler does.
//
//go:norace
func Gosched() {
	if current == nil || current.cur == nil {
		runtime.Gosched()
		return
	}
	Point(&Op{Kind: "gosched"})
}

// ChooseEnv resolves an environment choice with n options (inline, no park).
//
//go:norace
func ChooseEnv(kind string, n int) int {
	e := current
	if e == nil || n <= 1 || e.aborting {
		return 0
	}
	p := e.choose(&Choice{Kind: kind, N: n})
	if e.cur != nil {
		e.cur.H = mix(mix(e.cur.H, hstr(kind)), uint64(p))
	}
	return p
}

//go:norace
func (e *Exec) choose(c *Choice) int {
	i := len(e.Trace)
	c.Frozen = e.Frozen
	p := e.chooser.Choose(i, c)
	if e.Frozen {
		p = 0
	}
	if p < 0 || p >= c.N {
		if e.Nondet == "" {
			e.Nondet = fmt.Sprintf("choice %d (%s) picked %d of %d", i, c.Kind, p, c.N)
		}
		p = 0
	}
	c.Pick = p
	e.Trace = append(e.Trace, *c)
	return p
}

// Logf appends to the execution log when replaying with KeepLog.
//
//go:norace
func Logf(f string, a ...any) {
	e := current
	if e != nil && e.KeepLog {
		name := "sched"
		if e.cur != nil {
			name = e.cur.Name
		}
		e.Log = append(e.Log, fmt.Sprintf("[%s] ", name)+fmt.Sprintf(f, a...))
	}
}

// Stop asks the scheduler to end the execution at the next decision (harness found its verdict).
//
//go:norace
func Stop() {
	if current != nil {
		current.stopReq = true
	}
}

type Result struct {
	Trace    []Choice
	Steps    int
	Deadlock bool
	Horizon  bool
	Nondet   string
	Panics   []string
	Blocked  []string
	Pruned   bool
	Races    int
	FinalFP  uint64
	Log      []string
	Threads  int
}

// Picks returns the chosen options of a trace.
//
//go:norace
func Picks(tr []Choice) []int {
	p := make([]int, len(tr))
	for i, c := range tr {
		p[i] = c.Pick
	}
	return p
}

type RunOpts struct {
	MaxSteps int
	Monitor  func(*Exec)
	Prune    func(*Exec, uint64) bool
	KeepLog  bool
}

// Run executes main as user thread 0 under the chooser.
//
//go:norace
func Run(chooser Chooser, o RunOpts, main func()) (res Result) {
	if current != nil {
		panic("vsched: nested Run")
	}
	if o.MaxSteps == 0 {
		o.MaxSteps = 200000
	}
	e := &Exec{back: make(chan struct{}), chooser: chooser, MaxSteps: o.MaxSteps, Monitor: o.Monitor, Prune: o.Prune, KeepLog: o.KeepLog}
	current = e
	defer func() { current = nil }()
	for _, f := range runStartHooks {
		f()
	}
	races0 := vrace.Errors()
	e.spawn("main", true, main)
	var last *Thread
	var enabled []*Thread
	for {
		if e.Monitor != nil {
			e.cur = nil
			e.Monitor(e)
		}
		usersLeft := false
		enabled = enabled[:0]
		for _, t := range e.Threads {
			if t.done {
				continue
			}
			if t.User {
				usersLeft = true
			}
			if t.pending != nil && t.pending.enabled() {
				enabled = append(enabled, t)
			}
		}
		if !usersLeft || e.stopReq || e.Nondet != "" {
			break
		}
		if anyPanic(e) {
			break
		}
		if len(enabled) == 0 {
			progressed := false
			e.cur = nil
			for _, h := range idleHooks {
				if h() {
					progressed = true
					break
				}
			}
			if progressed {
				e.Steps++
				if e.Steps < e.MaxSteps {
					continue
				}
				e.Horizon = true
				break
			}
			e.Deadlock = true
			break
		}
		if e.Steps >= e.MaxSteps {
			e.Horizon = true
			break
		}
		// canonical order: running thread first if still enabled, then ascending ids
		runOpt := -1
		if last != nil && last.pending != nil && last.pending.Kind == "gosched" && !last.done {
			// the yielding thread goes to the end of the list
			for i, t := range enabled {
				if t == last {
					copy(enabled[i:], enabled[i+1:])
					enabled[len(enabled)-1] = last
					break
				}
			}
		} else if last != nil {
			for i, t := range enabled {
				if t == last {
					copy(enabled[1:i+1], enabled[0:i])
					enabled[0] = last
					runOpt = 0
					break
				}
			}
		}
		if e.Prune != nil && !e.Frozen {
			lid := -1
			if last != nil {
				lid = last.ID
			}
			e.LastID = lid
			if e.Prune(e, e.Fingerprint()) {
				e.Pruned = true
				break
			}
		}
		pick := 0
		if len(enabled) > 1 {
			pick = e.choose(&Choice{Kind: "thread", N: len(enabled), Preempt: runOpt == 0})
		}
		t := enabled[pick]
		e.cur = t
		last = t
		e.Steps++
		vrace.Disable()
		t.wake <- struct{}{}
		<-e.back
		vrace.Enable()
	}
	res = Result{Trace: e.Trace, Steps: e.Steps, Deadlock: e.Deadlock, Horizon: e.Horizon, Pruned: e.Pruned, Nondet: e.Nondet, Threads: len(e.Threads)}
	vrace.Acquire(unsafe.Pointer(&e.endSync))
	res.FinalFP = e.Fingerprint()
	res.Races = vrace.Errors() - races0
	for _, t := range e.Threads {
		if t.Panic != nil {
			res.Panics = append(res.Panics, fmt.Sprintf("thread %s: %v\n%s", t.Name, t.Panic, trimStack(t.Stack)))
		}
		if !t.done && t.User && t.pending != nil {
			res.Blocked = append(res.Blocked, fmt.Sprintf("%s blocked at %s", t.Name, t.pending.Kind))
		}
	}
	if e.Deadlock {
		for _, t := range e.Threads {
			if !t.done && !t.User && t.pending != nil {
				res.Blocked = append(res.Blocked, fmt.Sprintf("(%s at %s)", t.Name, t.pending.Kind))
			}
		}
	}
	res.Log = e.Log
	// teardown: release every parked thread with the abort flag
	e.aborting = true
	e.cur = nil
	for i := 0; i < len(e.Threads); i++ {
		t := e.Threads[i]
		if !t.done {
			e.cur = t
			vrace.Disable()
			t.wake <- struct{}{}
			<-e.back
			vrace.Enable()
		}
	}
	return res
}

//go:norace
func anyPanic(e *Exec) bool {
	for _, t := range e.Threads {
		if t.Panic != nil {
			return true
		}
	}
	return false
}

//go:norace
func trimStack(s string) string {
	lines := strings.Split(s, "\n")
	// drop the frames of the recover machinery
	if len(lines) > 40 {
		lines = lines[:40]
	}
	return strings.Join(lines, "\n")
}

// CurThreadID returns the id of the running virtual thread (-1 in direct mode).
//
//go:norace
func CurThreadID() int {
	if current == nil || current.cur == nil {
		return -1
	}
	return current.cur.ID
}

// CurThreadName returns the name of the running virtual thread.
//
//go:norace
func CurThreadName() string {
	if current == nil || current.cur == nil {
		return ""
	}
	return current.cur.Name
}

// Default is the chooser that always takes option 0.
type Default struct{}

//go:norace
func (Default) Choose(i int, c *Choice) int { return 0 }

// Replay replays a list of picks and then takes option 0.
type Replay struct{ Prefix []int }

//go:norace
func (r *Replay) Choose(i int, c *Choice) int {
	if i < len(r.Prefix) {
		return r.Prefix[i]
	}
	return 0
}

type quiescentEn struct {
	e *Exec
	t *Thread
}

//go:norace
func (q *quiescentEn) OpEnabled() bool {
	for _, t := range q.e.Threads {
		if t == q.t || t.done || t.pending == nil {
			continue
		}
		if _, ok := t.pending.En.(*quiescentEn); ok {
			continue
		}
		if t.pending.enabled() {
			return false
		}
	}
	return true
}

// WaitQuiescent parks the calling thread until no other thread can make a step (all others are
// finished or blocked): a "drain" that steers, never judges.
//
//go:norace
func WaitQuiescent() {
	e := current
	if e == nil || e.cur == nil {
		return
	}
	Point(&Op{Kind: "quiesce", En: &quiescentEn{e, e.cur}})
}
