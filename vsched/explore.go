package vsched

import (
	"fmt"
	"runtime"
	"time"
)

// Scenario builds one fresh instance of the system under test. It returns the body of user
// thread 0, an optional monitor (evaluated before every scheduling decision) and the oracle
// that judges the completed execution.
type Scenario func() (main func(), monitor func(*Exec), check func(Result) error)

// Explorer enumerates executions of a scenario by stateless depth-first search over the
// recorded choices (re-execution from scratch for every branch).
//
// Cost model: thread choices cost 1 when they deviate from the default (Delay: every
// non-default pick; otherwise only preemptions of a still-enabled running thread);
// environment choices have their own budget MaxEnv (-1: unbounded).
type Explorer struct {
	Delay    bool
	UseCache bool
	MaxDev   int // deviation / preemption budget
	MaxEnv   int
	// EnvKinds, when non-nil, lists the environment choice kinds that are branched on; the others keep
	// their default answer (e.g. branch on select cases and map order but not on every buffer-pool answer)
	EnvKinds    map[string]bool
	MaxSteps    int
	Scenario    Scenario
	ShardI      int // this worker explores sub-trees with index%ShardN == ShardI
	ShardN      int
	ShardDepth  int // depth (in deviations from the root run) at which sub-trees are dealt, default 1
	Deadline    time.Time
	MaxCache    int
	StopAtFirst bool
	Outcome     func() string // optional classification of the last execution (harness state)

	Executions  int
	Transitions int
	PrunedRuns  int
	States      int
	Violations  []Violation
	Outcomes    map[string]int
	TimedOut    bool
	CacheFull   bool
	NondetErr   string
	MaxDepth    int

	cache   map[uint64][]visit
	counter int
}

type visit struct {
	last int32
	used int32
}

type Violation struct {
	Err   error
	Trace []int
}

//go:norace
func (x *Explorer) cost(tr []Choice, upto int, alt int) (dev, env int) {
	for i := 0; i < upto; i++ {
		c := tr[i]
		if c.Kind == "thread" {
			if (c.Preempt || x.Delay) && c.Pick != 0 {
				dev++
			}
		} else if c.Pick != 0 {
			env++
		}
	}
	if upto < len(tr) {
		c := tr[upto]
		if c.Kind == "thread" {
			if (c.Preempt || x.Delay) && alt != 0 {
				dev++
			}
		} else if alt != 0 {
			env++
		}
	}
	return
}

//go:norace
func (x *Explorer) Explore() {
	if x.ShardN <= 0 {
		x.ShardN = 1
	}
	if x.ShardDepth <= 0 {
		x.ShardDepth = 1
	}
	if x.MaxCache == 0 {
		x.MaxCache = 4_000_000
	}
	x.explore(nil, 0, x.ShardN == 1 || x.ShardI == 0)
}

// owned: whether this shard is responsible for checking/counting this run.
//
//go:norace
func (x *Explorer) explore(prefix []int, depth int, owned bool) {
	if x.StopAtFirst && len(x.Violations) > 0 || x.NondetErr != "" {
		return
	}
	if !x.Deadline.IsZero() && time.Now().After(x.Deadline) {
		x.TimedOut = true
		return
	}
	main, mon, check := x.Scenario()
	var prune func(*Exec, uint64) bool
	if x.UseCache && owned && depth >= x.ShardDepth || x.UseCache && x.ShardN == 1 {
		if x.cache == nil {
			x.cache = map[uint64][]visit{}
		}
		prune = func(e *Exec, fp uint64) bool {
			if len(e.Trace) < len(prefix) {
				return false // still replaying
			}
			used, _ := x.cost(e.Trace, len(e.Trace), 0)
			vs := x.cache[fp]
			for _, v := range vs {
				// same last thread: identical future; other last thread: every schedule costs at most one more
				if (int(v.last) == e.LastID && int(v.used) <= used) || int(v.used)+1 <= used {
					return true
				}
			}
			if len(x.cache) >= x.MaxCache {
				x.CacheFull = true
				return false
			}
			x.cache[fp] = append(vs, visit{int32(e.LastID), int32(used)})
			return false
		}
	}
	res := Run(&Replay{prefix}, RunOpts{MaxSteps: x.MaxSteps, Monitor: mon, Prune: prune}, main)
	if res.Nondet != "" {
		x.NondetErr = fmt.Sprintf("NONDETERMINISM while replaying %v: %s", prefix, res.Nondet)
		return
	}
	if len(res.Trace) < len(prefix) && !res.Pruned {
		x.NondetErr = fmt.Sprintf("NONDETERMINISM: replay of %v ended after %d choices", prefix, len(res.Trace))
		return
	}
	if x.Executions%64 == 0 {
		runtime.Gosched()
	}
	if owned {
		x.Executions++
		x.Transitions += res.Steps
		x.States = len(x.cache)
		if depth > x.MaxDepth {
			x.MaxDepth = depth
		}
		if res.Pruned {
			x.PrunedRuns++
		} else {
			if x.Outcome != nil {
				if x.Outcomes == nil {
					x.Outcomes = map[string]int{}
				}
				x.Outcomes[x.Outcome()]++
			}
			if err := check(res); err != nil {
				x.Violations = append(x.Violations, Violation{err, Picks(res.Trace)})
				if x.StopAtFirst {
					return
				}
			}
		}
	}
	for i := len(prefix); i < len(res.Trace); i++ {
		c := res.Trace[i]
		if c.Frozen {
			continue
		}
		if c.Kind != "thread" && x.EnvKinds != nil && !x.EnvKinds[c.Kind] {
			continue
		}
		for alt := 1; alt < c.N; alt++ {
			dev, env := x.cost(res.Trace, i, alt)
			if dev > x.MaxDev || (x.MaxEnv >= 0 && env > x.MaxEnv) {
				continue
			}
			childOwned := owned
			if x.ShardN > 1 && depth+1 == x.ShardDepth {
				childOwned = x.counter%x.ShardN == x.ShardI
				x.counter++
				if !childOwned {
					continue
				}
			} else if x.ShardN > 1 && depth+1 < x.ShardDepth {
				childOwned = x.ShardI == 0
			}
			np := make([]int, i+1)
			for k := 0; k < i; k++ {
				np[k] = res.Trace[k].Pick
			}
			np[i] = alt
			x.explore(np, depth+1, childOwned)
		}
	}
}
