package vrace

// Helpers for shim state that several virtual threads touch without a modelled happens-before
// edge (the in-memory file system stands for kernel state). The runtime instruments slicecopy
// (copy / append with a spread argument) and map operations even inside //go:norace functions, so
// shim code uses these plain loops instead.

//go:norace
func RemoveAt[T any](s []T, i int) []T {
	for j := i; j+1 < len(s); j++ {
		s[j] = s[j+1]
	}
	var zero T
	s[len(s)-1] = zero
	return s[:len(s)-1]
}

//go:norace
func CopyBytes(dst, src []byte) int {
	n := len(src)
	if len(dst) < n {
		n = len(dst)
	}
	for i := 0; i < n; i++ {
		dst[i] = src[i]
	}
	return n
}

//go:norace
func CloneBytes(b []byte) []byte {
	c := make([]byte, len(b))
	for i := range b {
		c[i] = b[i]
	}
	return c
}

//go:norace
func CloneStrings(b []string) []string {
	c := make([]string, len(b))
	for i := range b {
		c[i] = b[i]
	}
	return c
}
