//go:build race

// Package vrace: thin wrappers over the runtime's public race-detector API.
package vrace

import (
	"runtime"
	"unsafe"
)

const Enabled = true

//go:norace
func Disable() { runtime.RaceDisable() }

//go:norace
func Enable() { runtime.RaceEnable() }

//go:norace
func Acquire(p unsafe.Pointer) { runtime.RaceAcquire(p) }

//go:norace
func Release(p unsafe.Pointer) { runtime.RaceRelease(p) }

//go:norace
func ReleaseMerge(p unsafe.Pointer) { runtime.RaceReleaseMerge(p) }

//go:norace
func Errors() int { return runtime.RaceErrors() }

//go:norace
func ReadRange(p unsafe.Pointer, n int) { runtime.RaceReadRange(p, n) }

//go:norace
func WriteRange(p unsafe.Pointer, n int) { runtime.RaceWriteRange(p, n) }
