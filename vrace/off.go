//go:build !race

package vrace

import "unsafe"

const Enabled = false

func Disable()                           {}
func Enable()                            {}
func Acquire(p unsafe.Pointer)           {}
func Release(p unsafe.Pointer)           {}
func ReleaseMerge(p unsafe.Pointer)      {}
func Errors() int                        { return 0 }
func ReadRange(p unsafe.Pointer, n int)  {}
func WriteRange(p unsafe.Pointer, n int) {}
