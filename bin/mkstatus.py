#!/usr/bin/env python3
"""Print the DESIGN.md §0 status table from evidence/*.json (what the last runs actually covered)."""
import json, glob, os, sys

root = os.path.dirname(os.path.dirname(os.path.abspath(__file__)))


def k(n):
    if n >= 10_000_000:
        return f"{n/1e6:.0f} M"
    if n >= 1_000_000:
        return f"{n/1e6:.2f} M"
    if n >= 10_000:
        return f"{n/1e3:.0f} k"
    if n >= 1_000:
        return f"{n/1e3:.1f} k"
    return str(n)


print("| | tier | units | executions of the implementation | states | transitions | oracle evaluations | distinct non-trivial | exhaustive | wall |")
print("|---|---|---|---|---|---|---|---|---|---|")
for f in sorted(glob.glob(os.path.join(root, "evidence", "C*.json"))):
    e = json.load(open(f))
    c = e["coverage"]
    print(
        f"| {e['property_id']} | {e['tier']} | {c.get('units', '')} | {k(c.get('traces_validated_against_impl', 0))} | {k(c.get('states', 0))} | "
        f"{k(c.get('transitions', 0))} | {k(c.get('evaluations', 0))} | {k(c.get('distinct_nontrivial', 0))} | "
        f"{'yes' if c.get('exhaustive') else 'no (' + '; '.join(map(str, c.get('caps_hit', [])))[:60] + ')'} | {e['wall_s']:.0f} s |"
    )
