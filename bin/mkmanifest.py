#!/usr/bin/env python3
# Regenerates MANIFEST.json from the table below (keeps it valid and in sync with the registry).
import json
props=[json.loads(l) for l in open('/verif/properties.jsonl')]
SCHED="stateless model checking of the instrumented implementation (controlled scheduler, bounded DFS over schedules/environment answers with partial-order fingerprint pruning)"
SEQ="bounded-exhaustive enumeration of operation sequences / inputs on the real code against a reference model (explicit-state search with canonical-state deduplication where stated)"
CRASH="exhaustive crash-point and torn-tail enumeration: every prefix of the logged file-system mutations of every explored schedule, recovered with the real Open"
C={
 "C09":dict(engine="SEQ",tech=SEQ+"; breadth-first explicit-state search over flush/compact/watermark/recover sequences on a real levelManager",
   text="Explicit-state BFS over operation sequences (flush shapes, watermark moves, recover) on the real levelManager with canonical-state deduplication; after every transition every permitted (key, ts) lookup is compared with a versioned reference model.",
   note="Trusted: in-memory FS shim, the versioned reference model, sequential use of the manager (as DB.run drives it), bounds in the evidence file.",ref="DESIGN.md §4 C09"),
 "C10":dict(engine="SEQ",tech=SEQ+"; every distribution of a small versioned universe over tables x block sizes x every query",
   text="Every assignment of a small versioned universe to up to three tables (with and without duplicates) is flushed through the real flushToL0 for several block sizes, and every (key, ts) lookup incl. bloom false positives is compared with a brute-force scan, on live and on recovered handles.",
   note="Trusted: in-memory FS shim, brute-force model; universe and block-size menu in the evidence file.",ref="DESIGN.md §4 C10"),
 "C13":dict(engine="SCHED",tech=SCHED+" against a reference counter model evaluated before every scheduling decision",
   text="All well-formed Begin/Done/WaitForMark/cancel client scripts up to the stated size are run against the real watermark.process goroutine under every schedule within the preemption bound; a reference counter model is evaluated before every scheduling decision.",
   note="Trusted: the channel/atomic/WaitGroup shims as a model of Go's primitives, sequential consistency (race freedom is C12's subject), the bounds recorded in the evidence file.",ref="DESIGN.md §4 C13"),
}
import os
extra=os.path.join(os.path.dirname(__file__),'manifest_extra.json')
if os.path.exists(extra):
    C.update(json.load(open(extra)))
checks=[]
for p in props:
    i=p['id']
    if i not in C: continue
    c=C[i]
    checks.append({"property_id":i,"quick_cmd":f"bin/check {i} quick","thorough_cmd":f"bin/check {i} thorough",
      "evidence_file":f"/verif/evidence/{i}.json","replay_cmd_template":f"bin/check {i} quick --replay {{path}}",
      "engine":c["engine"],"level_claimed":{"category":"model_checking","text":c["text"],"design_ref":c["ref"]},
      "level_note":c["note"],"technique":c["tech"]})
na=[{"property_id":p['id'],"reason":"check not built yet in this commit (work in progress; DESIGN.md §4 describes the planned model-checking harness)"} for p in props if p['id'] not in C]
eng={}
for i,c in C.items(): eng.setdefault(c["engine"],[]).append(i)
kinds={"SCHED":("vsched/","cooperative scheduler + stateless DFS explorer over instrumented real code"),
       "SEQ":("harness/","bounded-exhaustive sequence/input enumeration on the instrumented build against reference models"),
       "CRASH":("harness/","SCHED + in-memory FS with mutation log: every crash prefix and torn tail recovered with the real Open")}
m={"version":1,"setup_cmd":"bin/setup",
 "hooks":{"guard":"verif","enable":"no source hooks in /repo: bin/check rewrites the working tree into a go build -overlay (sync, sync/atomic, chan/select/go, os, path/filepath, io/ioutil, time, context, math/rand, runtime.Gosched, map range order, s2.NewReader/NewWriter -> shims) and adds inject/*.go with -tags verif","baseline_off_cmd":"cd /repo && GOFLAGS=-mod=mod GOPROXY=off go test -vet=off -count=1 ./...","source_commits":[],"add_only":True},
 "engines":[{"name":k,"path":kinds[k][0],"serves_properties":sorted(v),"kind_free_text":kinds[k][1]} for k,v in sorted(eng.items())],
 "checks":checks,"not_applicable":na,
 "notes":"bin/check <ID> <tier> instruments /repo's working tree on every invocation; VERIF_REPO=<dir> points it at another checkout. known_findings.json lists fixed defects (fix: commits in /repo) and known findings."}
json.dump(m,open('/verif/MANIFEST.json','w'),indent=1)
print("claimed:",sorted(C))
