//go:build verif

package originium

// Accessors used by the verification harness (added through a build overlay; this file is
// not part of the repository).

import (
	"reflect"

	"github.com/B1NARY-GR0UP/originium/pkg/logger"
	"github.com/B1NARY-GR0UP/originium/types"
)

// VerifLM exposes a levelManager over a directory for table-level checks.
type VerifLM struct {
	lm *levelManager
	db *DB
}

// NewVerifLM builds a level manager over dir. With withOracle a DB shell with a fresh oracle is
// attached (compaction reads the discard watermark from it); this starts the two watermark
// goroutines, so it must run inside a scheduled execution.
func NewVerifLM(dir string, l0, ratio, block int, withOracle bool) *VerifLM {
	v := &VerifLM{}
	if withOracle {
		v.db = &DB{dir: dir, logger: logger.GetLogger(), oracle: newOracle(),
			config: Config{L0TargetNum: l0, LevelRatio: ratio, DataBlockByteThreshold: block}}
		v.lm = newLevelManager(v.db)
		v.db.manager = v.lm
	} else {
		v.lm = &levelManager{dir: dir, l0TargetNum: l0, ratio: ratio, dataBlockSize: block, logger: logger.GetLogger()}
	}
	return v
}

// Reopen returns a manager over the same directory (and the same oracle) whose handles are
// rebuilt from the files.
func (v *VerifLM) Reopen() (*VerifLM, int64) {
	n := &VerifLM{db: v.db}
	if v.db != nil {
		n.lm = newLevelManager(v.db)
	} else {
		n.lm = &levelManager{dir: v.lm.dir, l0TargetNum: v.lm.l0TargetNum, ratio: v.lm.ratio, dataBlockSize: v.lm.dataBlockSize, logger: logger.GetLogger()}
	}
	mv := n.lm.recover()
	return n, mv
}

func (v *VerifLM) Flush(es []types.Entry) error { return v.lm.flushToL0(es) }
func (v *VerifLM) Recover() int64               { return v.lm.recover() }
func (v *VerifLM) Compact()                     { v.lm.checkAndCompact() }

// SetWatermark finishes index w on the read mark (the mark only ever moves forward).
func (v *VerifLM) SetWatermark(w uint64) { v.db.oracle.readMark.Done(w) }
func (v *VerifLM) Watermark() uint64     { return v.db.oracle.discardAtOrBelow() }

// Lookup is the table part of DB.search: lower bound of key@ts, accepted if it is the same user key.
func (v *VerifLM) Lookup(key string, ts uint64) (types.Entry, bool) {
	k := types.KeyWithTs(key, ts)
	e, ok := v.lm.searchLowerBound(k)
	if ok && !types.IsSameKey(k, e.Key) {
		return types.Entry{}, false
	}
	return e, ok
}

// VerifTable describes one table handle.
type VerifTable struct {
	Level, Idx int
	Entries    []types.Entry
}

// Tables lists every handle with the entries read back from its file.
func (v *VerifLM) Tables() []VerifTable {
	var r []VerifTable
	for level, tables := range v.lm.levels {
		for e := tables.Front(); e != nil; e = e.Next() {
			th := e.Value.(tableHandle)
			d := v.lm.fetch(level, th.levelIdx, th.dataBlockIndex.DataBlock)
			r = append(r, VerifTable{Level: level, Idx: th.levelIdx, Entries: d.Entries})
		}
	}
	return r
}

// FilterContains asks the bloom filter of the n-th handle (in Tables order).
func (v *VerifLM) FilterContains(n int, userKey string) bool {
	i := 0
	for _, tables := range v.lm.levels {
		for e := tables.Front(); e != nil; e = e.Next() {
			if i == n {
				th := e.Value.(tableHandle)
				return th.filter.Contains(userKey)
			}
			i++
		}
	}
	return false
}

// VerifReadTs exposes a transaction's snapshot timestamp (diagnostics only, never an oracle input).
func (t *Txn) VerifReadTs() uint64 { return t.readTs }

// VerifInMemtable reports whether the active memtable holds any version of key (no locks:
// called by the harness between API calls; used to classify covered cases, never as an oracle).
func (db *DB) VerifInMemtable(key string) bool {
	k := types.KeyWithTs(key, ^uint64(0))
	e, ok := db.memtable.skiplist.LowerBound(k)
	return ok && types.IsSameKey(k, e.Key)
}

// VerifShape returns the number of queued immutable memtables and of table handles per level. The containers are
// reached by reflection so that a change of their representation (list, slice) does not break the instrumented build.
func (db *DB) VerifShape() (imm int, tables []int) {
	imm = verifLen(reflect.ValueOf(db).Elem().FieldByName("immutables"))
	lv := reflect.ValueOf(db.manager).Elem().FieldByName("levels")
	if lv.IsValid() && (lv.Kind() == reflect.Slice || lv.Kind() == reflect.Array) {
		for i := 0; i < lv.Len(); i++ {
			tables = append(tables, verifLen(lv.Index(i)))
		}
	}
	return
}

// verifLen: length of a slice/map/chan, or of a container with a Len field (container/list keeps one).
func verifLen(v reflect.Value) int {
	for v.IsValid() && (v.Kind() == reflect.Ptr || v.Kind() == reflect.Interface) {
		if v.IsNil() {
			return 0
		}
		v = v.Elem()
	}
	if !v.IsValid() {
		return 0
	}
	switch v.Kind() {
	case reflect.Slice, reflect.Map, reflect.Chan, reflect.Array:
		return v.Len()
	case reflect.Struct:
		if f := v.FieldByName("len"); f.IsValid() && f.CanInt() {
			return int(f.Int())
		}
	}
	return 0
}
