//go:build verif

package originium

// Accessors used by the verification harness (added through a build overlay; this file is
// not part of the repository).
