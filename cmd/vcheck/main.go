// vcheck: root/worker driver of all checks. Built per command from the instrumented overlay
// of /repo's current working tree (see bin/check).
package main

import (
	"encoding/json"
	"flag"
	"fmt"
	"os"
	"os/exec"
	"path/filepath"
	"regexp"
	"runtime"
	"runtime/debug"
	"runtime/pprof"
	"sort"
	"strconv"
	"strings"
	"sync"
	"time"

	"verif/harness"
	"verif/vrace"
)

var (
	prop     = flag.String("prop", "", "property id")
	tier     = flag.String("tier", "quick", "quick|thorough")
	unitName = flag.String("unit", "", "worker mode: run this unit")
	outPath  = flag.String("out", "", "worker mode: result file")
	deadline = flag.Int64("deadline", 0, "worker mode: unix deadline")
	replay   = flag.String("replay", "", "replay file")
	evidence = flag.String("evidence", "", "evidence file to write")
	findings = flag.String("findings", "known_findings.json", "known findings file")
	replays  = flag.String("replays", "replays", "directory for replay files")
	jobs     = flag.Int("jobs", runtime.NumCPU(), "parallel workers")
	list     = flag.Bool("list", false, "list units")
	budget   = flag.Int("budget", 0, "override wall-clock budget in seconds")
	only     = flag.String("only", "", "only units whose name contains this")
	cpuprof  = flag.String("cpuprofile", "", "worker mode: write a CPU profile")
	stop1    = flag.Bool("stop-at-first", false, "do not start further units once a unit has reported a violation (detection runs; the evidence then says exhaustive:false)")
)

func main() {
	flag.Parse()
	harness.Setup()
	if *replay != "" {
		os.Exit(doReplay())
	}
	m := harness.Props[*prop]
	if m == nil {
		fmt.Fprintf(os.Stderr, "unknown property %q\n", *prop)
		os.Exit(2)
	}
	units := m.Units(*tier)
	if *list {
		for _, u := range units {
			fmt.Println(u.Name)
		}
		return
	}
	if *unitName != "" {
		worker(units)
		return
	}
	os.Exit(root(m, units))
}

func findUnit(units []harness.Unit, name string) *harness.Unit {
	for i := range units {
		if units[i].Name == name {
			return &units[i]
		}
	}
	return nil
}

func worker(units []harness.Unit) {
	u := findUnit(units, *unitName)
	if u == nil {
		fmt.Fprintf(os.Stderr, "unknown unit %q\n", *unitName)
		os.Exit(2)
	}
	// The engine creates an s2.Writer (two MB-sized buffers and a sync.Pool that stays reachable for two
	// GC cycles) for every encoded block. Measured in this sandbox: with a large GC goal the live heap
	// grows geometrically and page faults dominate; GOGC=50 with one P keeps the heap small and hot and
	// is ~9x faster end to end.
	runtime.GOMAXPROCS(1)
	debug.SetGCPercent(50)
	go func() { // memory watchdog: the sandbox has no memory limit
		for {
			time.Sleep(2 * time.Second)
			var ms runtime.MemStats
			runtime.ReadMemStats(&ms)
			if ms.Sys > 10<<30 && !vrace.Enabled {
				fmt.Fprintf(os.Stderr, "worker exceeds 10 GiB (%d MiB): giving up\n", ms.Sys>>20)
				os.Exit(3)
			}
		}
	}()
	if g := os.Getenv("VERIF_GOGC"); g != "" {
		n, _ := strconv.Atoi(g)
		debug.SetGCPercent(n)
	}
	var dl time.Time
	if *deadline > 0 {
		dl = time.Unix(*deadline, 0)
	}
	if hp := os.Getenv("VERIF_HEAPPROF"); hp != "" {
		go func() {
			time.Sleep(3 * time.Second)
			f, _ := os.Create(hp)
			pprof.Lookup("heap").WriteTo(f, 0)
			f.Close()
			fmt.Fprintln(os.Stderr, "goroutines:", runtime.NumGoroutine())
			os.Exit(0)
		}()
	}
	if *cpuprof != "" {
		f, _ := os.Create(*cpuprof)
		pprof.StartCPUProfile(f)
		defer pprof.StopCPUProfile()
	}
	harness.RunUnit(*prop, *tier, *u, dl, nil, *outPath)
}

func doReplay() int {
	b, err := os.ReadFile(*replay)
	if err != nil {
		fmt.Fprintln(os.Stderr, err)
		return 2
	}
	var rs harness.ReplaySpec
	if err := json.Unmarshal(b, &rs); err != nil {
		fmt.Fprintln(os.Stderr, err)
		return 2
	}
	m := harness.Props[rs.Property]
	if m == nil {
		fmt.Fprintf(os.Stderr, "unknown property %q\n", rs.Property)
		return 2
	}
	u := findUnit(m.Units(rs.Tier), rs.Unit)
	if u == nil {
		fmt.Fprintf(os.Stderr, "unknown unit %q\n", rs.Unit)
		return 2
	}
	fmt.Printf("replaying property=%s unit=%s signature=%s\n", rs.Property, rs.Unit, rs.Sig)
	res := harness.RunUnit(rs.Property, rs.Tier, *u, time.Time{}, &rs, "")
	if res.EngineError != "" {
		fmt.Println("ENGINE-ERROR", res.EngineError)
		return 2
	}
	if len(res.Violations) > 0 {
		fmt.Printf("VIOLATION property=%s replay=%s\n", rs.Property, *replay)
		return 1
	}
	fmt.Println("no violation on this tree")
	return 0
}

type finding struct {
	Property    string `json:"property"`
	Status      string `json:"status"` // known | fixed
	Pattern     string `json:"pattern"`
	Description string `json:"description"`
	Commit      string `json:"commit,omitempty"`
}

func loadFindings() []finding {
	b, err := os.ReadFile(*findings)
	if err != nil {
		return nil
	}
	var f struct {
		Findings []finding `json:"findings"`
	}
	if err := json.Unmarshal(b, &f); err != nil {
		fmt.Fprintln(os.Stderr, "known_findings.json:", err)
		os.Exit(2)
	}
	return f.Findings
}

func root(m *harness.PropMeta, units []harness.Unit) int {
	t0 := time.Now()
	seed, _ := strconv.Atoi(os.Getenv("VERIF_SEED"))
	bs := m.QuickS
	if *tier == "thorough" {
		bs = m.ThoroughS
	}
	if *budget > 0 {
		bs = *budget
	}
	if bs == 0 {
		bs = 60
	}
	dl := t0.Add(time.Duration(bs) * time.Second)
	if *only != "" {
		var f []harness.Unit
		for _, u := range units {
			if strings.Contains(u.Name, *only) {
				f = append(f, u)
			}
		}
		units = f
	}
	order := make([]int, len(units))
	for i := range order {
		order[i] = i
	}
	// quick: heaviest units first (everything is expected to finish, this minimises the wall time);
	// thorough: lightest first - the tier runs against its wall-clock budget, and the broad cheap units must not be
	// starved by the few deep ones, which then share whatever time is left
	heavyFirst := *tier != "thorough"
	less := func(wa, wb int) bool {
		if heavyFirst {
			return wa > wb
		}
		return wa < wb
	}
	sort.SliceStable(order, func(a, b int) bool { return less(units[order[a]].Weight, units[order[b]].Weight) })
	if seed != 0 {
		// the seed only rotates the start order of equally weighted units; nothing is sampled
		sort.SliceStable(order, func(a, b int) bool {
			wa, wb := units[order[a]].Weight, units[order[b]].Weight
			if wa != wb {
				return less(wa, wb)
			}
			return (order[a]+seed)%len(units) < (order[b]+seed)%len(units)
		})
	}
	tmp, err := os.MkdirTemp("", "vcheck-res-")
	if err != nil {
		fmt.Fprintln(os.Stderr, err)
		return 2
	}
	defer os.RemoveAll(tmp)

	// thorough tier: when a unit is started it gets a fair slice of what is left of the wall-clock budget
	// (remaining time x workers / units not yet started, at least 20 s); a unit that uses up its slice stops where it
	// is and says so (exhaustive:false for that unit). Units run lightest first, so the slices grow as the cheap units
	// finish early, and the deep units cannot starve the broad ones. The quick tier has no slices.
	sliced := *tier == "thorough" && len(units) > *jobs
	started := 0
	results := make([]*harness.UnitResult, len(units))
	errs := make([]string, len(units))
	skipped := 0
	sawViolation := false
	var mu sync.Mutex
	var wg sync.WaitGroup
	sem := make(chan struct{}, *jobs)
	self, _ := os.Executable()
	for _, i := range order {
		sem <- struct{}{}
		mu.Lock()
		stopNow := *stop1 && sawViolation
		mu.Unlock()
		if time.Now().After(dl) || stopNow {
			<-sem
			mu.Lock()
			skipped++
			mu.Unlock()
			continue
		}
		wg.Add(1)
		go func(i int) {
			defer wg.Done()
			defer func() { <-sem }()
			out := filepath.Join(tmp, fmt.Sprintf("u%d.json", i))
			udl := dl
			if sliced {
				mu.Lock()
				left := len(units) - started
				started++
				mu.Unlock()
				slice := time.Duration(float64(time.Until(dl)) * float64(*jobs) / float64(max(left, 1)))
				if slice < 20*time.Second {
					slice = 20 * time.Second
				}
				if time.Now().Add(slice).Before(dl) {
					udl = time.Now().Add(slice)
				}
			}
			cmd := exec.Command(self, "-prop", *prop, "-tier", *tier, "-unit", units[i].Name, "-out", out, "-deadline", strconv.FormatInt(udl.Unix(), 10))
			var stderr strings.Builder
			cmd.Stderr = &stderr
			cmd.Stdout = &stderr
			cmd.Env = append(os.Environ(), "GORACE=halt_on_error=0 history_size=2")
			done := make(chan error, 1)
			if err := cmd.Start(); err != nil {
				errs[i] = err.Error()
				return
			}
			go func() { done <- cmd.Wait() }()
			grace := time.Until(udl) + 90*time.Second
			select {
			case err := <-done:
				b, rerr := os.ReadFile(out)
				if rerr != nil {
					errs[i] = fmt.Sprintf("worker for unit %s failed (%v): %s", units[i].Name, err, tail(stderr.String(), 2000))
					return
				}
				var r harness.UnitResult
				if jerr := json.Unmarshal(b, &r); jerr != nil {
					errs[i] = "bad worker result: " + jerr.Error()
					return
				}
				if vrace.Enabled && strings.Contains(stderr.String(), "WARNING: DATA RACE") {
					if r.Info == nil {
						r.Info = map[string]any{}
					}
					r.Info["race_report"] = tail(firstRace(stderr.String()), 6000)
				}
				results[i] = &r
				if len(r.Violations) > 0 {
					mu.Lock()
					sawViolation = true
					mu.Unlock()
				}
			case <-time.After(grace):
				cmd.Process.Kill()
				<-done
				mu.Lock()
				skipped++
				mu.Unlock()
				results[i] = &harness.UnitResult{Unit: units[i].Name, Exhaustive: false, Caps: []string{"unit killed at the wall-clock limit; nothing it explored is counted"}}
			}
		}(i)
	}
	wg.Wait()

	// ---- merge
	var agg harness.UnitResult
	agg.Exhaustive = skipped == 0
	nt := map[uint64]struct{}{}
	outcomes := map[string]int{}
	caps := map[string]bool{}
	var engineErrs []string
	type uv struct {
		unit string
		v    harness.Viol
	}
	var viols []uv
	info := map[string]any{}
	for i, r := range results {
		if errs[i] != "" {
			engineErrs = append(engineErrs, errs[i])
			continue
		}
		if r == nil {
			continue
		}
		if r.EngineError != "" {
			engineErrs = append(engineErrs, r.Unit+": "+r.EngineError)
		}
		agg.Executions += r.Executions
		agg.Transitions += r.Transitions
		agg.States += r.States
		agg.Evaluations += r.Evaluations
		agg.ViolCount += r.ViolCount
		agg.NTOverflow += r.NTOverflow
		if !r.Exhaustive {
			agg.Exhaustive = false
		}
		for _, k := range r.Nontrivial {
			nt[k] = struct{}{}
		}
		for k, n := range r.Outcomes {
			outcomes[k] += n
		}
		for _, c := range r.Caps {
			caps[r.Unit+": "+c] = true
		}
		if len(agg.Samples) < 6 {
			for _, s := range r.Samples {
				if len(agg.Samples) < 6 {
					agg.Samples = append(agg.Samples, map[string]any{"unit": r.Unit, "case": s})
				}
			}
		}
		for _, v := range r.Violations {
			viols = append(viols, uv{r.Unit, v})
		}
		if len(r.Info) > 0 && len(info) < 40 {
			info[r.Unit] = r.Info
		}
	}
	if skipped > 0 {
		caps[fmt.Sprintf("%d of %d units not run or killed: wall-clock budget of %ds reached", skipped, len(units), bs)] = true
	}

	// ---- classify violations against the known-findings file
	kf := loadFindings()
	exit := 0
	os.MkdirAll(*replays, 0o755)
	seenSig := map[string]bool{}
	knownPrinted := map[string]bool{}
	newViol := 0
	for _, x := range viols {
		if seenSig[x.v.Sig] {
			continue
		}
		seenSig[x.v.Sig] = true
		known := ""
		for _, f := range kf {
			if f.Property == *prop && f.Status == "known" {
				if ok, _ := regexp.MatchString(f.Pattern, x.v.Sig); ok {
					known = f.Description
					break
				}
			}
		}
		if known != "" {
			if !knownPrinted[known] {
				knownPrinted[known] = true
				fmt.Printf("KNOWN-FINDING: property=%s %s [signature %s]\n", *prop, known, x.v.Sig)
			}
			continue
		}
		newViol++
		if newViol > 12 {
			continue
		}
		rs := harness.ReplaySpec{Property: *prop, Tier: *tier, Unit: x.unit, Sig: x.v.Sig, Detail: x.v.Detail, Trace: x.v.Trace, Case: x.v.Case}
		b, _ := json.MarshalIndent(&rs, "", " ")
		name := filepath.Join(*replays, fmt.Sprintf("%s-%08x.json", *prop, hash32(x.unit+x.v.Sig)))
		os.WriteFile(name, b, 0o644)
		abs, _ := filepath.Abs(name)
		fmt.Printf("VIOLATION property=%s replay=%s\n", *prop, abs)
		fmt.Printf("  signature: %s\n  unit: %s\n  detail: %s\n", x.v.Sig, x.unit, firstLines(x.v.Detail, 12))
		exit = 1
	}

	// ---- evidence
	wall := time.Since(t0).Seconds()
	capList := keys(caps)
	cov := map[string]any{
		"states":                        max64(agg.States, 1),
		"transitions":                   max64(agg.Transitions, 1),
		"traces_validated_against_impl": agg.Executions,
		"evaluations":                   agg.Evaluations,
		"distinct_nontrivial":           len(nt),
		"rule":                          m.Rule,
		"samples":                       agg.Samples,
		"exhaustive":                    agg.Exhaustive && len(engineErrs) == 0,
		"units":                         len(units),
		"distinct_outcomes":             len(outcomes),
		"caps_hit":                      capList,
		"unit_info":                     info,
		"race_build":                    vrace.Enabled,
	}
	if agg.NTOverflow > 0 {
		cov["distinct_nontrivial_note"] = fmt.Sprintf("per-unit cap of distinct keys reached; %d further non-trivial cases were not added to the distinct count", agg.NTOverflow)
	}
	if len(outcomes) <= 40 {
		cov["outcomes"] = outcomes
	}
	if len(agg.Samples) == 0 {
		cov["samples"] = []any{"no execution completed"}
	}
	ev := map[string]any{
		"property_id": *prop,
		"tier":        *tier,
		"seed":        seed,
		"level":       "model_checking",
		"coverage":    cov,
		"assumptions": m.Assumptions,
		"wall_s":      wall,
		"violations":  newViol,
	}
	if *evidence != "" {
		os.MkdirAll(filepath.Dir(*evidence), 0o755)
		b, _ := json.MarshalIndent(ev, "", " ")
		if err := os.WriteFile(*evidence, b, 0o644); err != nil {
			fmt.Fprintln(os.Stderr, err)
			return 2
		}
	}
	fmt.Printf("%s %s: units=%d executions=%d transitions=%d states=%d evaluations=%d distinct-nontrivial=%d outcomes=%d exhaustive=%v violations=%d known=%d wall=%.1fs\n",
		*prop, *tier, len(units), agg.Executions, agg.Transitions, agg.States, agg.Evaluations, len(nt), len(outcomes), cov["exhaustive"], newViol, len(knownPrinted), wall)
	for _, c := range capList {
		fmt.Println("  cap:", c)
	}
	if len(engineErrs) > 0 {
		for _, e := range engineErrs {
			fmt.Println("ENGINE-ERROR", e)
		}
		if exit == 0 {
			return 2
		}
	}
	return exit
}

func firstRace(s string) string {
	i := strings.Index(s, "WARNING: DATA RACE")
	if i < 0 {
		return ""
	}
	s = s[i:]
	if j := strings.Index(s[1:], "=================="); j > 0 {
		s = s[:j+1]
	}
	return s
}

func tail(s string, n int) string {
	if len(s) > n {
		return "…" + s[len(s)-n:]
	}
	return s
}

func firstLines(s string, n int) string {
	l := strings.Split(s, "\n")
	if len(l) > n {
		l = append(l[:n], "…")
	}
	return strings.Join(l, "\n    ")
}

func keys(m map[string]bool) []string {
	r := []string{}
	for k := range m {
		r = append(r, k)
	}
	sort.Strings(r)
	return r
}

func max64(a, b int64) int64 {
	if a > b {
		return a
	}
	return b
}

func hash32(s string) uint32 {
	var h uint32 = 2166136261
	for i := 0; i < len(s); i++ {
		h ^= uint32(s[i])
		h *= 16777619
	}
	return h
}
