// vinstr: rewrite the working tree of /repo into an overlay that routes every
// concurrency / environment primitive through the verif shims.
//
// usage: vinstr -repo /repo -out <dir> [-pkgs ./...] [-skip pkg/logger]
package main

import (
	"encoding/json"
	"flag"
	"fmt"
	"go/ast"
	"go/format"
	"go/token"
	"go/types"
	"os"
	"path/filepath"
	"strconv"
	"strings"

	"golang.org/x/tools/go/ast/astutil"
	"golang.org/x/tools/go/packages"
)

const shimRoot = "verif/shim/"

// import path -> (shim path, local name)
var importMap = map[string][2]string{
	"sync":                             {shimRoot + "vsync", "sync"},
	"sync/atomic":                      {shimRoot + "vatomic", "atomic"},
	"context":                          {shimRoot + "vcontext", "context"},
	"time":                             {shimRoot + "vtime", "time"},
	"os":                               {shimRoot + "vos", "os"},
	"path/filepath":                    {shimRoot + "vfilepath", "filepath"},
	"io/ioutil":                        {shimRoot + "vioutil", "ioutil"},
	"math/rand":                        {shimRoot + "vrand", "rand"},
	"github.com/klauspost/compress/s2": {shimRoot + "vs2", "s2"},
}

var (
	repo    = flag.String("repo", "/repo", "repository root")
	out     = flag.String("out", "", "output dir for rewritten files + overlay.json")
	skip    = flag.String("skip", "pkg/logger", "comma separated package dir suffixes left untouched")
	only    = flag.String("only", "", "comma separated import kinds to rewrite (default all)")
	verbose = flag.Bool("v", false, "verbose")
	inject  = flag.String("inject", "", "directory of files added to repository packages (mirrors the repository layout)")
)

func main() {
	flag.Parse()
	if *out == "" {
		fatal("need -out")
	}
	if *only != "" {
		keep := map[string]bool{}
		for _, k := range strings.Split(*only, ",") {
			keep[k] = true
		}
		for k := range importMap {
			if !keep[k] {
				delete(importMap, k)
			}
		}
	}
	cfg := &packages.Config{
		Mode: packages.NeedName | packages.NeedFiles | packages.NeedCompiledGoFiles | packages.NeedSyntax | packages.NeedTypes | packages.NeedTypesInfo | packages.NeedImports,
		Dir:  *repo,
	}
	pkgs, err := packages.Load(cfg, "./...")
	if err != nil {
		fatal("load: %v", err)
	}
	overlay := map[string]string{}
	skips := strings.Split(*skip, ",")
	for _, p := range pkgs {
		if len(p.Errors) > 0 {
			fatal("package %s has errors: %v", p.PkgPath, p.Errors)
		}
		skipped := false
		for _, s := range skips {
			if s != "" && strings.HasSuffix(p.PkgPath, s) {
				skipped = true
			}
		}
		if skipped {
			continue
		}
		for i, f := range p.Syntax {
			name := p.CompiledGoFiles[i]
			r := &rewriter{pkg: p, file: f}
			changed := r.rewrite()
			if !changed {
				continue
			}
			rel, _ := filepath.Rel(*repo, name)
			dst := filepath.Join(*out, rel)
			if err := os.MkdirAll(filepath.Dir(dst), 0o755); err != nil {
				fatal("%v", err)
			}
			fd, err := os.Create(dst)
			if err != nil {
				fatal("%v", err)
			}
			if err := format.Node(fd, p.Fset, f); err != nil {
				fatal("format %s: %v", name, err)
			}
			fd.Close()
			overlay[name] = dst
			if *verbose {
				fmt.Fprintf(os.Stderr, "rewrote %s (%s)\n", rel, strings.Join(r.notes, ","))
			}
		}
	}
	if *inject != "" {
		err := filepath.Walk(*inject, func(p string, fi os.FileInfo, err error) error {
			if err != nil || fi.IsDir() || !strings.HasSuffix(p, ".go") {
				return err
			}
			rel, _ := filepath.Rel(*inject, p)
			abs, _ := filepath.Abs(p)
			overlay[filepath.Join(*repo, rel)] = abs
			return nil
		})
		if err != nil {
			fatal("inject: %v", err)
		}
	}
	b, _ := json.MarshalIndent(map[string]any{"Replace": overlay}, "", " ")
	if err := os.WriteFile(filepath.Join(*out, "overlay.json"), b, 0o644); err != nil {
		fatal("%v", err)
	}
	fmt.Printf("rewrote %d files\n", len(overlay))
}

func fatal(f string, a ...any) {
	fmt.Fprintf(os.Stderr, "INSTRUMENTATION-ERROR "+f+"\n", a...)
	os.Exit(2)
}

type rewriter struct {
	pkg   *packages.Package
	file  *ast.File
	notes []string
	tmpN  int

	// facts collected before mutation (keyed by original nodes)
	chanLen   map[*ast.CallExpr]string // "Len"/"Cap"
	chanClose map[*ast.CallExpr]bool
	rangeChan map[*ast.RangeStmt]bool
	rangeMap  map[*ast.RangeStmt]bool
	// generated calls, so that select rewriting can recognise them
	genSend  map[*ast.CallExpr]bool
	genRecv  map[*ast.CallExpr]bool
	genRecv2 map[*ast.CallExpr]bool

	needChan, needSched, needMap bool
	goschedRuntime               string // local name of package runtime where a Gosched call was rewritten
}

func (r *rewriter) note(s string) { r.notes = append(r.notes, s) }

func sel(pkg, name string) *ast.SelectorExpr {
	return &ast.SelectorExpr{X: ast.NewIdent(pkg), Sel: ast.NewIdent(name)}
}

func call(fun ast.Expr, args ...ast.Expr) *ast.CallExpr {
	return &ast.CallExpr{Fun: fun, Args: args}
}

func (r *rewriter) tmp(prefix string) *ast.Ident {
	r.tmpN++
	return ast.NewIdent(fmt.Sprintf("__%s%d", prefix, r.tmpN))
}

func (r *rewriter) rewrite() bool {
	changed := false
	info := r.pkg.TypesInfo
	r.chanLen = map[*ast.CallExpr]string{}
	r.chanClose = map[*ast.CallExpr]bool{}
	r.rangeChan = map[*ast.RangeStmt]bool{}
	r.rangeMap = map[*ast.RangeStmt]bool{}
	r.genSend = map[*ast.CallExpr]bool{}
	r.genRecv = map[*ast.CallExpr]bool{}
	r.genRecv2 = map[*ast.CallExpr]bool{}

	// ---- pass 0: imports
	for _, imp := range r.file.Imports {
		p, _ := strconv.Unquote(imp.Path.Value)
		if m, ok := importMap[p]; ok {
			imp.Path.Value = strconv.Quote(m[0])
			if imp.Name == nil {
				imp.Name = ast.NewIdent(m[1])
			}
			changed = true
			r.note("import:" + p)
		}
	}

	// ---- comments: keep only the file header (build constraints) and declaration docs;
	// everything else would be misplaced by the printer once nodes are replaced
	{
		keep := map[*ast.CommentGroup]bool{}
		for _, d := range r.file.Decls {
			switch x := d.(type) {
			case *ast.FuncDecl:
				keep[x.Doc] = true
			case *ast.GenDecl:
				keep[x.Doc] = true
			}
		}
		var cg []*ast.CommentGroup
		for _, c := range r.file.Comments {
			if c.End() < r.file.Package || keep[c] {
				cg = append(cg, c)
			}
		}
		r.file.Comments = cg
	}

	// ---- pass 1: collect typed facts
	ast.Inspect(r.file, func(n ast.Node) bool {
		switch x := n.(type) {
		case *ast.CallExpr:
			if id, ok := x.Fun.(*ast.Ident); ok {
				if b, ok := info.Uses[id].(*types.Builtin); ok && len(x.Args) >= 1 {
					switch b.Name() {
					case "len", "cap":
						if t := info.TypeOf(x.Args[0]); t != nil {
							if _, ok := t.Underlying().(*types.Chan); ok {
								r.chanLen[x] = strings.Title(b.Name())
							}
						}
					case "close":
						r.chanClose[x] = true
					}
				}
			}
		case *ast.RangeStmt:
			if t := info.TypeOf(x.X); t != nil {
				switch t.Underlying().(type) {
				case *types.Chan:
					r.rangeChan[x] = true
				case *types.Map:
					r.rangeMap[x] = true
				}
			}
		}
		return true
	})

	// ---- pass 2: post-order mutation
	post := func(c *astutil.Cursor) bool {
		switch x := c.Node().(type) {
		case *ast.ChanType:
			// chan T -> *vchan.Chan[T]   (but not when it is the first arg of make: handled at the call)
			c.Replace(r.chanTypeExpr(x.Value))
			r.needChan, changed = true, true
		case *ast.CallExpr:
			if id, ok := x.Fun.(*ast.Ident); ok && id.Name == "make" && len(x.Args) >= 1 {
				if elem, ok := isShimChanType(x.Args[0]); ok {
					// make(*vchan.Chan[T], n) -> vchan.Make[T](n)
					nc := call(&ast.IndexExpr{X: sel("vchan", "Make"), Index: elem}, x.Args[1:]...)
					if len(x.Args) == 1 {
						nc.Args = []ast.Expr{&ast.BasicLit{Kind: token.INT, Value: "0"}}
					}
					c.Replace(nc)
					r.note("make")
					changed = true
					break
				}
			}
			if se, ok := x.Fun.(*ast.SelectorExpr); ok && se.Sel.Name == "Gosched" && len(x.Args) == 0 {
				if id, ok := se.X.(*ast.Ident); ok {
					if pn, ok := info.Uses[id].(*types.PkgName); ok && pn.Imported().Path() == "runtime" {
						// runtime.Gosched() -> vsched.Gosched(): a scheduling point at which the caller steps back
						// behind every other runnable thread (spin-wait loops terminate under the default schedule).
						// The runtime import stays: other uses may remain; an unused import is silenced below.
						c.Replace(call(sel("vsched", "Gosched")))
						r.needSched, changed = true, true
						r.goschedRuntime = id.Name
						r.note("gosched")
						break
					}
				}
			}
			if k, ok := r.chanLen[x]; ok {
				c.Replace(call(sel("vchan", k), x.Args...))
				r.needChan, changed = true, true
				r.note("chan" + k)
			} else if r.chanClose[x] {
				c.Replace(call(sel("vchan", "Close"), x.Args...))
				r.needChan, changed = true, true
				r.note("close")
			}
		case *ast.SendStmt:
			nc := call(sel("vchan", "Send"), x.Chan, x.Value)
			r.genSend[nc] = true
			c.Replace(&ast.ExprStmt{X: nc})
			r.needChan, changed = true, true
			r.note("send")
		case *ast.UnaryExpr:
			if x.Op == token.ARROW {
				nc := call(sel("vchan", "Recv"), x.X)
				r.genRecv[nc] = true
				c.Replace(nc)
				r.needChan, changed = true, true
				r.note("recv")
			}
		case *ast.AssignStmt:
			// v, ok := <-c   (the recv has already been rewritten to vchan.Recv(c))
			if len(x.Lhs) == 2 && len(x.Rhs) == 1 {
				if nc, ok := x.Rhs[0].(*ast.CallExpr); ok && r.genRecv[nc] {
					nc.Fun = sel("vchan", "Recv2")
					delete(r.genRecv, nc)
					r.genRecv2[nc] = true
				}
			}
		case *ast.ValueSpec:
			if len(x.Names) == 2 && len(x.Values) == 1 {
				if nc, ok := x.Values[0].(*ast.CallExpr); ok && r.genRecv[nc] {
					nc.Fun = sel("vchan", "Recv2")
					delete(r.genRecv, nc)
					r.genRecv2[nc] = true
				}
			}
		case *ast.SelectStmt:
			c.Replace(r.rewriteSelect(x))
			r.needChan, changed = true, true
			r.note("select")
		case *ast.GoStmt:
			c.Replace(r.rewriteGo(x))
			r.needSched, changed = true, true
			r.note("go")
		case *ast.RangeStmt:
			if r.rangeChan[x] {
				c.Replace(r.rewriteRangeChan(x))
				r.needChan, changed = true, true
				r.note("rangechan")
			} else if r.rangeMap[x] {
				r.rewriteRangeMap(x)
				r.needMap, changed = true, true
				r.note("rangemap")
			}
		}
		return true
	}
	astutil.Apply(r.file, nil, post)

	if r.needChan {
		astutil.AddNamedImport(r.pkg.Fset, r.file, "vchan", shimRoot+"vchan")
	}
	if r.needSched {
		astutil.AddNamedImport(r.pkg.Fset, r.file, "vsched", "verif/vsched")
	}
	if r.needMap {
		astutil.AddNamedImport(r.pkg.Fset, r.file, "vmap", shimRoot+"vmap")
	}
	if r.goschedRuntime != "" {
		// keep the file compiling when Gosched was the only use of package runtime
		r.file.Decls = append(r.file.Decls, &ast.GenDecl{Tok: token.VAR, Specs: []ast.Spec{&ast.ValueSpec{
			Names: []*ast.Ident{ast.NewIdent("_")}, Values: []ast.Expr{sel(r.goschedRuntime, "NumGoroutine")}}}})
	}
	return changed
}

func (r *rewriter) chanTypeExpr(elem ast.Expr) ast.Expr {
	return &ast.StarExpr{X: &ast.IndexExpr{X: sel("vchan", "Chan"), Index: elem}}
}

// isShimChanType recognises *vchan.Chan[T] produced by chanTypeExpr
func isShimChanType(e ast.Expr) (ast.Expr, bool) {
	st, ok := e.(*ast.StarExpr)
	if !ok {
		return nil, false
	}
	ix, ok := st.X.(*ast.IndexExpr)
	if !ok {
		return nil, false
	}
	s, ok := ix.X.(*ast.SelectorExpr)
	if !ok {
		return nil, false
	}
	if id, ok := s.X.(*ast.Ident); ok && id.Name == "vchan" && s.Sel.Name == "Chan" {
		return ix.Index, true
	}
	return nil, false
}

// select { case v := <-c: A; case c2 <- x: B; default: C }
//
//	=>
//
// { __c1 := vchan.RecvCase(c); __c2 := vchan.SendCase(c2, x)
//
//	switch vchan.Select(true, __c1, __c2) { case 0: v := __c1.V; A; case 1: B; default: C } }
func (r *rewriter) rewriteSelect(s *ast.SelectStmt) ast.Stmt {
	var pre []ast.Stmt
	var caseArgs []ast.Expr
	sw := &ast.SwitchStmt{Body: &ast.BlockStmt{}}
	hasDefault := false
	idx := 0
	for _, cl := range s.Body.List {
		cc := cl.(*ast.CommClause)
		if cc.Comm == nil {
			hasDefault = true
			sw.Body.List = append(sw.Body.List, &ast.CaseClause{List: nil, Body: cc.Body})
			continue
		}
		cv := r.tmp("sc")
		var mk ast.Expr
		var bodyPre []ast.Stmt
		switch cm := cc.Comm.(type) {
		case *ast.ExprStmt:
			nc, ok := cm.X.(*ast.CallExpr)
			switch {
			case ok && r.genSend[nc]:
				mk = call(sel("vchan", "SendCase"), nc.Args...)
			case ok && r.genRecv[nc]:
				mk = call(sel("vchan", "RecvCase"), nc.Args...)
			default:
				fatal("unsupported select comm (expr) at %v", r.pkg.Fset.Position(cm.Pos()))
			}
		case *ast.AssignStmt:
			nc, ok := cm.Rhs[0].(*ast.CallExpr)
			if !ok || !(r.genRecv[nc] || r.genRecv2[nc]) {
				fatal("unsupported select comm (assign) at %v", r.pkg.Fset.Position(cm.Pos()))
			}
			mk = call(sel("vchan", "RecvCase"), nc.Args...)
			rhs := []ast.Expr{&ast.SelectorExpr{X: cv, Sel: ast.NewIdent("V")}}
			if len(cm.Lhs) == 2 {
				rhs = append(rhs, &ast.SelectorExpr{X: cv, Sel: ast.NewIdent("Ok")})
			}
			bodyPre = append(bodyPre, &ast.AssignStmt{Lhs: cm.Lhs, Tok: cm.Tok, Rhs: rhs})
			if cm.Tok == token.DEFINE {
				// avoid "declared and not used"
				for _, l := range cm.Lhs {
					if id, ok := l.(*ast.Ident); ok && id.Name != "_" {
						bodyPre = append(bodyPre, &ast.AssignStmt{Lhs: []ast.Expr{ast.NewIdent("_")}, Tok: token.ASSIGN, Rhs: []ast.Expr{ast.NewIdent(id.Name)}})
					}
				}
			}
		default:
			fatal("unsupported select comm at %v", r.pkg.Fset.Position(cc.Pos()))
		}
		pre = append(pre, &ast.AssignStmt{Lhs: []ast.Expr{cv}, Tok: token.DEFINE, Rhs: []ast.Expr{mk}})
		caseArgs = append(caseArgs, cv)
		sw.Body.List = append(sw.Body.List, &ast.CaseClause{
			List: []ast.Expr{&ast.BasicLit{Kind: token.INT, Value: strconv.Itoa(idx)}},
			Body: append(bodyPre, cc.Body...),
		})
		idx++
	}
	def := "false"
	if hasDefault {
		def = "true"
	} else {
		// keep the statement "terminating" when every clause is (select is, switch without default is not)
		sw.Body.List = append(sw.Body.List, &ast.CaseClause{List: nil, Body: []ast.Stmt{
			&ast.ExprStmt{X: call(ast.NewIdent("panic"), &ast.BasicLit{Kind: token.STRING, Value: `"vchan.Select: unreachable"`})},
		}})
	}
	sw.Tag = call(sel("vchan", "Select"), append([]ast.Expr{ast.NewIdent(def)}, caseArgs...)...)
	if len(pre) == 0 {
		return sw
	}
	return &ast.BlockStmt{List: append(pre, sw)}
}

// go f(a, b)  =>  { __g1 := f; __g2 := a; __g3 := b; vsched.Go(func() { __g1(__g2, __g3) }) }
func (r *rewriter) rewriteGo(g *ast.GoStmt) ast.Stmt {
	var pre []ast.Stmt
	c := g.Call
	bind := func(e ast.Expr) ast.Expr {
		t := r.tmp("g")
		pre = append(pre, &ast.AssignStmt{Lhs: []ast.Expr{t}, Tok: token.DEFINE, Rhs: []ast.Expr{e}})
		return t
	}
	nc := &ast.CallExpr{Ellipsis: c.Ellipsis}
	if _, isLit := c.Fun.(*ast.FuncLit); isLit {
		nc.Fun = c.Fun
	} else {
		nc.Fun = bind(c.Fun)
	}
	for _, a := range c.Args {
		nc.Args = append(nc.Args, bind(a))
	}
	lit := &ast.FuncLit{Type: &ast.FuncType{Params: &ast.FieldList{}}, Body: &ast.BlockStmt{List: []ast.Stmt{&ast.ExprStmt{X: nc}}}}
	pre = append(pre, &ast.ExprStmt{X: call(sel("vsched", "Go"), lit)})
	return &ast.BlockStmt{List: pre}
}

// for x := range ch { B }  =>  for { x, __ok := vchan.Recv2(ch); if !__ok { break }; B }
func (r *rewriter) rewriteRangeChan(rs *ast.RangeStmt) ast.Stmt {
	ok := r.tmp("ok")
	var lhs ast.Expr = ast.NewIdent("_")
	tok := token.DEFINE
	if rs.Key != nil {
		lhs = rs.Key
		if rs.Tok == token.ASSIGN {
			tok = token.ASSIGN
		}
	}
	var stmts []ast.Stmt
	if tok == token.ASSIGN {
		stmts = append(stmts, &ast.DeclStmt{Decl: &ast.GenDecl{Tok: token.VAR, Specs: []ast.Spec{&ast.ValueSpec{Names: []*ast.Ident{ok}, Type: ast.NewIdent("bool")}}}})
	}
	stmts = append(stmts,
		&ast.AssignStmt{Lhs: []ast.Expr{lhs, ok}, Tok: tok, Rhs: []ast.Expr{call(sel("vchan", "Recv2"), rs.X)}},
		&ast.IfStmt{Cond: &ast.UnaryExpr{Op: token.NOT, X: ok}, Body: &ast.BlockStmt{List: []ast.Stmt{&ast.BranchStmt{Tok: token.BREAK}}}},
	)
	return &ast.ForStmt{Body: &ast.BlockStmt{List: append(stmts, rs.Body.List...)}}
}

// for k, v := range m { B }  =>  for _, k := range vmap.Keys(m) { v, __ok := m[k]; if !__ok { continue }; B }
// (in place)
func (r *rewriter) rewriteRangeMap(rs *ast.RangeStmt) {
	if rs.Tok == token.ASSIGN {
		fatal("range over map with '=' not supported at %v", r.pkg.Fset.Position(rs.Pos()))
	}
	m := rs.X
	var mref ast.Expr = m
	// evaluate the map expression once if it is not a plain identifier/selector
	switch m.(type) {
	case *ast.Ident, *ast.SelectorExpr:
	default:
		fatal("range over complex map expression not supported at %v", r.pkg.Fset.Position(rs.Pos()))
	}
	key := rs.Key
	if key == nil || isBlank(key) {
		key = r.tmp("k")
	}
	var pre []ast.Stmt
	ok := r.tmp("ok")
	var val ast.Expr = ast.NewIdent("_")
	if rs.Value != nil && !isBlank(rs.Value) {
		val = rs.Value
	}
	pre = append(pre,
		&ast.AssignStmt{Lhs: []ast.Expr{val, ok}, Tok: token.DEFINE, Rhs: []ast.Expr{&ast.IndexExpr{X: mref, Index: key}}},
		&ast.IfStmt{Cond: &ast.UnaryExpr{Op: token.NOT, X: ok}, Body: &ast.BlockStmt{List: []ast.Stmt{&ast.BranchStmt{Tok: token.CONTINUE}}}},
	)
	if rs.Key != nil && !isBlank(rs.Key) && (rs.Value == nil || isBlank(rs.Value)) {
		// key used, value unused: fine
	}
	rs.Key = ast.NewIdent("_")
	rs.Value = key
	rs.Tok = token.DEFINE
	rs.X = call(sel("vmap", "Keys"), m)
	rs.Body.List = append(pre, rs.Body.List...)
}

func isBlank(e ast.Expr) bool {
	id, ok := e.(*ast.Ident)
	return ok && id.Name == "_"
}
